package main

// rules_util.go — small vocabulary shared by the per-property rule files.

import (
	"fmt"
	"go/ast"
	"go/token"
	"go/types"
	"os"
	"reflect"
	"strings"

	"golang.org/x/tools/go/ssa"
)

// fref names a function or method by role: pkg is module-relative ("ctrlers/stake")
// or an absolute import path (contains a dot or no slash-less match), typ is the
// receiver's named type ("" for package-level functions).
type fref struct{ pkg, typ, name string }

func absPkg(p string) string {
	if strings.Contains(p, ".") || !strings.Contains(p, "/") && stdlibLike(p) {
		return p
	}
	if p == "" {
		return modPath
	}
	return modPath + "/" + p
}

func stdlibLike(p string) bool {
	switch p {
	case "bytes", "sort", "fmt", "errors", "time", "os", "strings", "strconv", "math", "runtime", "reflect", "unsafe", "sync":
		return true
	}
	return false
}

// callIs: does call c resolve (statically or as the invoked interface method) to ref?
func (w *World) callIs(c *ssa.CallCommon, ref fref) bool {
	obj := calleeObj(c)
	if obj == nil || obj.Name() != ref.name || obj.Pkg() == nil {
		return false
	}
	if obj.Pkg().Path() != absPkg(ref.pkg) {
		return false
	}
	sig := obj.Type().(*types.Signature)
	if ref.typ == "" {
		return sig.Recv() == nil
	}
	if sig.Recv() == nil {
		return false
	}
	t := deref(sig.Recv().Type())
	if a, ok := t.(*types.Alias); ok {
		t = types.Unalias(a)
	}
	n, _ := t.(*types.Named)
	if n == nil {
		return false
	}
	return n.Origin().Obj().Name() == ref.typ
}

// callIsAny
func (w *World) callIsAny(c *ssa.CallCommon, refs ...fref) bool {
	for _, r := range refs {
		if w.callIs(c, r) {
			return true
		}
	}
	return false
}

// callsTo lists the call instructions in fn that resolve to ref.
func (w *World) callsTo(fn *ssa.Function, refs ...fref) []ssa.CallInstruction {
	var out []ssa.CallInstruction
	for _, c := range CallsIn(fn) {
		if w.callIsAny(c.Common(), refs...) {
			out = append(out, c)
		}
	}
	return out
}

// needFn records an undecided obligation when an anchor does not resolve.
func needFn(r *Report, rule string, w *World, ref fref) *ssa.Function {
	var fn *ssa.Function
	if ref.typ == "" {
		fn = w.Func(ref.pkg, ref.name)
	} else {
		fn = w.Method(ref.pkg, ref.typ, ref.name)
	}
	if fn == nil || fn.Blocks == nil {
		r.Undecided(rule, "anchor:"+refStr(ref), "anchor function does not resolve on the current tree (renamed, moved or removed)")
		return nil
	}
	return fn
}

func refStr(ref fref) string {
	pk := ref.pkg[strings.LastIndex(ref.pkg, "/")+1:]
	if ref.typ == "" {
		return pk + "." + ref.name
	}
	return pk + ".(*" + ref.typ + ")." + ref.name
}

func isNilIface(v interface{}) bool {
	if v == nil {
		return true
	}
	rv := reflect.ValueOf(v)
	switch rv.Kind() {
	case reflect.Ptr, reflect.Interface, reflect.Slice, reflect.Map:
		return rv.IsNil()
	}
	return false
}

// callValue returns the ssa.Value of a call instruction (nil for go/defer).
func callValue(ci ssa.CallInstruction) ssa.Value {
	if v, ok := ci.(*ssa.Call); ok {
		return v
	}
	return nil
}

// extractOf finds the Extract #idx of a tuple-valued call.
func extractOf(call ssa.Value, idx int) *ssa.Extract {
	if call == nil || call.Referrers() == nil {
		return nil
	}
	for _, ref := range *call.Referrers() {
		if e, ok := ref.(*ssa.Extract); ok && e.Index == idx {
			return e
		}
	}
	return nil
}

// loadsOfField: is v a load of (or the address of) field `name` of a value whose
// canonical path is base ("" = any base)?
func (w *World) isFieldLoad(v ssa.Value, base, name string) bool {
	v = stripConv(v)
	if u, ok := v.(*ssa.UnOp); ok && u.Op == token.MUL {
		v = u.X
	}
	switch x := v.(type) {
	case *ssa.FieldAddr:
		if fieldName(x.X.Type(), x.Field) != name {
			return false
		}
		return base == "" || w.Canon(x.X) == base
	case *ssa.Field:
		if fieldName(x.X.Type(), x.Field) != name {
			return false
		}
		return base == "" || w.Canon(x.X) == base
	}
	return false
}

// storesIn lists Store instructions in fn whose address is a FieldAddr of the
// given struct type (module-relative pkg) and field.
type fieldStore struct {
	In    ssa.Instruction
	Owner *types.Named
	Field *types.Var
	Addr  ssa.Value
	Val   ssa.Value
}

func (w *World) fieldStores(fn *ssa.Function) []fieldStore {
	var out []fieldStore
	for _, b := range fn.Blocks {
		for _, in := range b.Instrs {
			st, ok := in.(*ssa.Store)
			if !ok {
				continue
			}
			if fa, ok := st.Addr.(*ssa.FieldAddr); ok {
				n, f := fieldOf(fa.X.Type(), fa.Field)
				if f != nil {
					out = append(out, fieldStore{In: in, Owner: n, Field: f, Addr: fa, Val: st.Val})
				}
			}
		}
	}
	return out
}

// trueEdgeDominates: is block p dominated by the true edge of an If whose
// condition satisfies match?
func (w *World) underCond(p *ssa.BasicBlock, match func(cond ssa.Value) bool) (edge int, ifi *ssa.If) {
	fn := p.Parent()
	for _, b := range fn.Blocks {
		i, ok := lastInstr(b).(*ssa.If)
		if !ok {
			continue
		}
		c := i.Cond
		neg := false
		for {
			if u, ok := c.(*ssa.UnOp); ok && u.Op == token.NOT {
				c = u.X
				neg = !neg
				continue
			}
			break
		}
		if !match(c) {
			continue
		}
		e := condEdge(i, p)
		if e == 0 {
			continue
		}
		if neg {
			e = -e
		}
		return e, i
	}
	return 0, nil
}

// condHolds: is p dominated by the `want` edge (+1 true / -1 false) of some If
// whose condition satisfies match?
func (w *World) condHolds(p *ssa.BasicBlock, want int, match func(cond ssa.Value) bool) bool {
	fn := p.Parent()
	for _, b := range fn.Blocks {
		i, ok := lastInstr(b).(*ssa.If)
		if !ok {
			continue
		}
		c := i.Cond
		neg := false
		for {
			if u, ok := c.(*ssa.UnOp); ok && u.Op == token.NOT {
				c = u.X
				neg = !neg
				continue
			}
			break
		}
		if !match(c) {
			continue
		}
		e := condEdge(i, p)
		if neg {
			e = -e
		}
		if e == want {
			return true
		}
	}
	return false
}

// ---- AST helpers

// funcDeclOf finds the declaration of pkg-level func or method by name in a package.
func (w *World) declOf(pkgRel, typ, name string) (*ast.FuncDecl, *types.Info) {
	p := w.Pkg(pkgRel)
	if p == nil {
		return nil, nil
	}
	for _, f := range p.Syntax {
		for _, d := range f.Decls {
			fd, ok := d.(*ast.FuncDecl)
			if !ok || fd.Name.Name != name {
				continue
			}
			if typ == "" && fd.Recv == nil {
				return fd, p.TypesInfo
			}
			if typ != "" && fd.Recv != nil && len(fd.Recv.List) == 1 {
				t := fd.Recv.List[0].Type
				if s, ok := t.(*ast.StarExpr); ok {
					t = s.X
				}
				if ix, ok := t.(*ast.IndexExpr); ok {
					t = ix.X
				}
				if id, ok := t.(*ast.Ident); ok && id.Name == typ {
					return fd, p.TypesInfo
				}
			}
		}
	}
	return nil, nil
}

// structFields lists the field names of a named struct type.
func structFields(n *types.Named) []*types.Var {
	if n == nil {
		return nil
	}
	st, ok := n.Underlying().(*types.Struct)
	if !ok {
		return nil
	}
	var out []*types.Var
	for i := 0; i < st.NumFields(); i++ {
		out = append(out, st.Field(i))
	}
	return out
}

func structTag(n *types.Named, field string) string {
	st, ok := n.Underlying().(*types.Struct)
	if !ok {
		return ""
	}
	for i := 0; i < st.NumFields(); i++ {
		if st.Field(i).Name() == field {
			return st.Tag(i)
		}
	}
	return ""
}

// fieldsReadIn returns the set of fields of struct type `owner` that are
// selected (read) through an expression of that type inside node n.
func fieldsSelectedIn(info *types.Info, n ast.Node, owner *types.Named) map[string]bool {
	out := map[string]bool{}
	ast.Inspect(n, func(x ast.Node) bool {
		se, ok := x.(*ast.SelectorExpr)
		if !ok {
			return true
		}
		sel := info.Selections[se]
		if sel == nil || sel.Kind() != types.FieldVal {
			return true
		}
		v, ok := sel.Obj().(*types.Var)
		if !ok || !v.IsField() {
			return true
		}
		// is the field declared in owner?
		for _, f := range structFields(owner) {
			if f == v {
				out[v.Name()] = true
			}
		}
		return true
	})
	return out
}

func fmtSites(w *World, ins ...ssa.Instruction) []string {
	var out []string
	for _, in := range ins {
		if in != nil && !isNilIface(in) {
			out = append(out, w.InstrPos(in))
		}
	}
	return out
}

func site(w *World, in ssa.Instruction) string { return w.InstrPos(in) }

func fnSite(w *World, fn *ssa.Function) string {
	return fmt.Sprintf("%s (%s)", w.Pos(fn.Pos()), w.FName(fn))
}

// uint256 / big.Int destination-receiver methods: in both libraries the receiver
// named z is the destination of the operation. These z-methods only read.
var pureZMethods = map[string]bool{"Clone": true, "Bytes": true, "Bytes32": true, "Bytes20": true, "Uint64": true, "Uint64WithOverflow": true,
	"IsZero": true, "Sign": true, "Cmp": true, "CmpUint64": true, "CmpBig": true, "Eq": true, "Lt": true, "Gt": true, "Slt": true, "Sgt": true, "LtUint64": true, "GtUint64": true,
	"String": true, "Dec": true, "Hex": true, "ToBig": true, "IsUint64": true, "BitLen": true, "ByteLen": true, "Format": true, "MarshalText": true, "MarshalJSON": true,
	"EncodeRLP": true, "PrettyDec": true, "Float64": true, "Log10": true, "WriteToSlice": true, "WriteToArray32": true, "WriteToArray20": true, "PaddedBytes": true, "SSZBytes": true, "Value": true, "MarshalSSZ": true, "MarshalSSZTo": true}

// mutatesZ: c calls a destination-receiver method of uint256.Int / big.Int that
// writes its receiver; returns the receiver value.
func mutatesZ(c *ssa.CallCommon) (ssa.Value, bool) {
	f := c.StaticCallee()
	if f == nil || f.Signature.Recv() == nil || len(c.Args) == 0 {
		return nil, false
	}
	if f.Signature.Recv().Name() != "z" || pureZMethods[f.Name()] {
		return nil, false
	}
	if obj := f.Object(); obj == nil || obj.Pkg() == nil || (obj.Pkg().Path() != "github.com/holiman/uint256" && obj.Pkg().Path() != "math/big") {
		return nil, false
	}
	return c.Args[0], true
}

// deepCall: a call found in a root function or in one of the helpers it calls, with
// the function that contains it.
type deepCall struct {
	Call ssa.CallInstruction
	Fn   *ssa.Function
}

// findCallsDeep: the calls in root and in the module functions it calls statically
// (three levels) whose canonical form — helper parameters replaced by the
// arguments of the call chain (CanonAtCallers) — equals want. A rule written
// against the root's own terms so keeps holding when part of the root is moved
// into helpers that receive the values as parameters.
func (w *World) findCallsDeep(root *ssa.Function, want string) []deepCall {
	var out []deepCall
	for _, fn := range w.withModuleCallees(root, 3) {
		envs := []map[*ssa.Parameter]string{nil}
		if fn != root {
			savedRoot := w.envRoot
			w.envRoot = root
			envs = w.callerEnvs(fn, 0)
			w.envRoot = savedRoot
		}
		for _, c := range CallsIn(fn) {
			match := len(envs) > 0
			for _, env := range envs {
				if env != nil {
					w.inlineEnv = append(w.inlineEnv, env)
				}
				s := w.canonCall(c.Common(), 0)
				if env != nil {
					w.inlineEnv = w.inlineEnv[:len(w.inlineEnv)-1]
				}
				if s != want {
					match = false
				}
			}
			if match {
				out = append(out, deepCall{c, fn})
			}
		}
	}
	return out
}

// condHoldsDeep: the canonical condition cond (in root's terms) holds with the
// wanted outcome at instruction in of fn — by a dominating test in fn, or at every
// call site of fn, up the call chain to root.
func (w *World) condHoldsDeep(root, fn *ssa.Function, in ssa.Instruction, cond string, want int, depth int) bool {
	envs := []map[*ssa.Parameter]string{nil}
	if fn != root {
		savedRoot := w.envRoot
		w.envRoot = root
		envs = w.callerEnvs(fn, 0)
		w.envRoot = savedRoot
	}
	here := len(envs) > 0
	for _, env := range envs {
		if env != nil {
			w.inlineEnv = append(w.inlineEnv, env)
		}
		ok := w.condCanonHolds(in.Block(), cond, want)
		if env != nil {
			w.inlineEnv = w.inlineEnv[:len(w.inlineEnv)-1]
		}
		if !ok {
			here = false
		}
	}
	if here {
		return true
	}
	if fn == root || depth >= 3 {
		return false
	}
	cs := w.nodeCallers(fn)
	if len(cs) == 0 {
		return false
	}
	for _, c := range cs {
		if c.Site == nil || !w.condHoldsDeep(root, c.Caller, c.Site, cond, want, depth+1) {
			return false
		}
	}
	return true
}

// inCallerTerms runs f once per call chain of fn below root (helper parameters
// bound to the call chain's arguments, see callerEnvs) and reports whether f held
// every time; for fn == root it runs f once without bindings.
func (w *World) inCallerTerms(root, fn *ssa.Function, f func() bool) bool {
	if fn == root {
		return f()
	}
	savedRoot := w.envRoot
	w.envRoot = root
	envs := w.callerEnvs(fn, 0)
	w.envRoot = savedRoot
	if len(envs) == 0 {
		return false
	}
	for _, env := range envs {
		if env != nil {
			w.inlineEnv = append(w.inlineEnv, env)
		}
		ok := f()
		if env != nil {
			w.inlineEnv = w.inlineEnv[:len(w.inlineEnv)-1]
		}
		if !ok {
			return false
		}
	}
	return true
}

// findStoreDeep: a store `addr = val` (canonical, in root's terms) in root or in a
// helper root calls (two levels), with the function that contains it.
func (w *World) findStoreDeep(root *ssa.Function, addr, val string) (*ssa.Store, *ssa.Function) {
	for _, fn := range w.withModuleCallees(root, 2) {
		for _, b := range fn.Blocks {
			for _, in := range b.Instrs {
				st, ok := in.(*ssa.Store)
				if !ok {
					continue
				}
				if w.inCallerTerms(root, fn, func() bool {
					return w.Canon(st.Addr) == addr && (val == "" || w.Canon(st.Val) == val || w.CanonI(st.Val) == val)
				}) {
					return st, fn
				}
			}
		}
	}
	return nil, nil
}

// gateHolds: under "the gate reports an error" (a fact on the canonical form of
// the gate call's error result) plus further facts, fn has no successful path and
// no path reaches a controller's ValidateTrx / ExecuteTrx — wherever the gate call
// sits (in fn, in a helper, in a step of a literal table). The gate fact must have
// been consulted: a function that never tests the gate's error does not pass.
func (w *World) gateHolds(fn *ssa.Function, gateErr atom, more ...atom) (bool, string) {
	ev := func(in ssa.Instruction) string {
		if ci, ok := in.(ssa.CallInstruction); ok && ci.Common().IsInvoke() && (ci.Common().Method.Name() == "ValidateTrx" || ci.Common().Method.Name() == "ExecuteTrx") {
			return "H"
		}
		return ""
	}
	facts := append([]atom{gateErr}, more...)
	fe := w.newFactEval(nil, facts...)
	saved := w.branchMarkers
	w.branchMarkers = false
	paths, complete := w.enumPaths(fn, fe.eval, ev, 4000)
	w.branchMarkers = saved
	if os.Getenv("RIGOCHECK_DEBUG") == "gate" {
		fmt.Fprintln(os.Stderr, "GATE", w.FName(fn), gateErr, "complete", complete, "used", fe.used)
		for _, p := range paths {
			pos := "-"
			if p.Ret != nil {
				pos = w.InstrPos(p.Ret)
			}
			fmt.Fprintln(os.Stderr, "   ", p.Term, pos, p.Events)
		}
	}
	if !complete {
		return false, "path enumeration incomplete"
	}
	if !fe.used[0] {
		return false, "no test of the gate's error is passed"
	}
	nErr := 0
	for _, p := range paths {
		for _, e := range p.Events {
			if e == "H" {
				return false, "a controller is called although the gate failed"
			}
		}
		switch p.Term {
		case "ok", "unknown":
			return false, "a successful path remains although the gate failed"
		case "err", "panic":
			nErr++
		}
	}
	if nErr == 0 {
		return false, "no path at all"
	}
	return true, ""
}

// mayCanons: the canonical forms of the values v may stand for — phis split,
// the results of module helpers replaced by what the helper returns (printed with
// the helper's parameters bound to the call's arguments), a helper's parameter
// replaced by the arguments of its call sites. Used by rules that ask "is this
// the value loaded from X" wherever the loading was moved to.
func (w *World) mayCanons(v ssa.Value, depth int) []string {
	seen := map[string]bool{}
	var out []string
	add := func(s string) {
		if !seen[s] {
			seen[s] = true
			out = append(out, s)
		}
	}
	var walk func(v ssa.Value, d int)
	walk = func(v ssa.Value, d int) {
		v = stripConv(v)
		add(w.Canon(v))
		add(w.CanonDeep(v))
		if d > depth {
			return
		}
		switch x := v.(type) {
		case *ssa.Phi:
			for _, e := range x.Edges {
				walk(e, d+1)
			}
		case *ssa.Extract:
			if c, ok := x.Tuple.(*ssa.Call); ok {
				w.mayCanonsOfCall(c, x.Index, d, walk)
			}
		case *ssa.Call:
			w.mayCanonsOfCall(x, 0, d, walk)
		case *ssa.UnOp:
			// a copy of what a computed pointer points to (`*loaded`): the pointer's sources
			if x.Op == token.MUL {
				switch x.X.(type) {
				case *ssa.Extract, *ssa.Call, *ssa.Phi, *ssa.Parameter:
					walk(x.X, d+1)
				}
			}
		case *ssa.Parameter:
			fn := x.Parent()
			pi := -1
			for i, p := range fn.Params {
				if p == x {
					pi = i
				}
			}
			if pi < 0 || fn.Parent() != nil {
				return
			}
			for _, cs := range w.nodeCallers(fn) {
				if w.mayScope != nil && !w.mayScope[cs.Caller] {
					continue // only the call sites below the function the rule is about
				}
				if cs.Site != nil && pi < len(cs.Site.Common().Args) && !cs.Site.Common().IsInvoke() {
					walk(cs.Site.Common().Args[pi], d+1)
				}
			}
		}
	}
	walk(v, 0)
	return out
}

func (w *World) mayCanonsOfCall(c *ssa.Call, idx int, d int, walk func(ssa.Value, int)) {
	cal := c.Common().StaticCallee()
	if cal == nil || !w.InModule(cal) || cal.Blocks == nil || len(cal.Params) != len(c.Common().Args) {
		return
	}
	env := map[*ssa.Parameter]string{}
	for j, p := range cal.Params {
		env[p] = w.Canon(c.Common().Args[j])
	}
	w.inlineEnv = append(w.inlineEnv, env)
	defer func() { w.inlineEnv = w.inlineEnv[:len(w.inlineEnv)-1] }()
	for _, b := range cal.Blocks {
		if ret, ok := lastInstr(b).(*ssa.Return); ok && b != cal.Recover && idx < len(ret.Results) {
			walk(ret.Results[idx], d+1)
		}
	}
}

func containsAny(ss []string, subs ...string) bool {
	for _, s := range ss {
		for _, sub := range subs {
			if strings.Contains(s, sub) {
				return true
			}
		}
	}
	return false
}

// isMinOf: v is the smaller of the two values that print as x and y — a call of a
// min helper on them, or the merge of an if that picks one of them by comparing
// the two (every spelling of the comparison; ties may go either way).
func (w *World) isMinOf(v ssa.Value, x, y string) bool {
	v = stripConv(v)
	pair := func(a, b string) bool { return (a == x && b == y) || (a == y && b == x) }
	switch t := v.(type) {
	case *ssa.Call:
		nm := strings.ToLower(callName(t.Common()))
		if bi, ok := t.Common().Value.(*ssa.Builtin); ok {
			nm = bi.Name()
		}
		if nm == "min" && len(t.Common().Args) == 2 {
			return pair(w.Canon(t.Common().Args[0]), w.Canon(t.Common().Args[1]))
		}
	case *ssa.Phi:
		if len(t.Edges) != 2 || !pair(w.Canon(t.Edges[0]), w.Canon(t.Edges[1])) {
			return false
		}
		blk := t.Block()
		d := blk.Idom()
		if d == nil {
			return false
		}
		ifi, ok := lastInstr(d).(*ssa.If)
		if !ok {
			return false
		}
		bo, ok := ifi.Cond.(*ssa.BinOp)
		if !ok || !pair(w.Canon(bo.X), w.Canon(bo.Y)) {
			return false
		}
		// which edge of the phi is taken when the condition is true
		trueEdge := -1
		for i, p := range blk.Preds {
			switch {
			case p == d && d.Succs[0] == blk && d.Succs[1] != blk:
				trueEdge = i
			case p != d && (p == d.Succs[0] || d.Succs[0].Dominates(p)) && !(p == d.Succs[1] || d.Succs[1].Dominates(p)):
				trueEdge = i
			}
		}
		if trueEdge < 0 {
			return false
		}
		tv := w.Canon(t.Edges[trueEdge])
		switch bo.Op {
		case token.LSS, token.LEQ:
			return tv == w.Canon(bo.X)
		case token.GTR, token.GEQ:
			return tv == w.Canon(bo.Y)
		}
	}
	return false
}

// mayCanonsBelow: mayCanons with helper parameters resolved only at the call sites
// inside root and the module functions it calls (two levels).
func (w *World) mayCanonsBelow(root *ssa.Function, v ssa.Value, depth int) []string {
	scope := map[*ssa.Function]bool{}
	for _, g := range w.withModuleCallees(root, 2) {
		scope[g] = true
	}
	saved := w.mayScope
	w.mayScope = scope
	defer func() { w.mayScope = saved }()
	return w.mayCanons(v, depth)
}
