package main

// cond.go — normalised atomic conditions and fact-driven evaluation.
//
// A branch condition is normalised to an atom (L rel R): L and R are canonical
// operand strings in a fixed order and rel is the set of order relations
// (<, =, >) under which the condition is true. Equivalent spellings normalise
// to the same atom:  a.Cmp(b) > 0,  b.Cmp(a) < 0,  a.Gt(b),  !(a.Cmp(b) <= 0);
// bytes.Compare(a,b) != 0 and !bytes.Equal(a,b);  x == false and !x.
//
// A rule states FACTS about the abstract input ("the receiver is not the zero
// address") and asks the path enumerator what the function does under them.
// Conditions the facts decide are followed; all others are explored both ways.

import (
	"fmt"
	"go/constant"
	"go/token"
	"go/types"
	"os"
	"regexp"
	"strings"

	"golang.org/x/tools/go/ssa"
)

type relSet uint8

const (
	relLT relSet = 1 << iota
	relEQ
	relGT
	relAll = relLT | relEQ | relGT
)

func (r relSet) String() string {
	switch r {
	case relLT:
		return "<"
	case relEQ:
		return "=="
	case relGT:
		return ">"
	case relLT | relEQ:
		return "<="
	case relGT | relEQ:
		return ">="
	case relLT | relGT:
		return "!="
	case relAll:
		return "any"
	}
	return "never"
}

func (r relSet) mirror() relSet {
	out := r & relEQ
	if r&relLT != 0 {
		out |= relGT
	}
	if r&relGT != 0 {
		out |= relLT
	}
	return out
}

func relOfOp(op token.Token) (relSet, bool) {
	switch op {
	case token.LSS:
		return relLT, true
	case token.LEQ:
		return relLT | relEQ, true
	case token.GTR:
		return relGT, true
	case token.GEQ:
		return relGT | relEQ, true
	case token.EQL:
		return relEQ, true
	case token.NEQ:
		return relLT | relGT, true
	}
	return 0, false
}

type atom struct {
	L, R     string
	Rel      relSet
	lre, rre *regexp.Regexp // facts only: operands given as patterns
}

func (a atom) String() string { return fmt.Sprintf("(%s %s %s)", a.L, a.Rel, a.R) }

func mkAtom(l string, rel relSet, r string) atom {
	if r < l {
		return atom{L: r, R: l, Rel: rel.mirror()}
	}
	return atom{L: l, R: r, Rel: rel}
}

// A is the rule author's constructor: A("p0.Height", ">", "x.End").
func A(l, op, r string) atom {
	rel := map[string]relSet{"<": relLT, "<=": relLT | relEQ, ">": relGT, ">=": relGT | relEQ, "==": relEQ, "!=": relLT | relGT}[op]
	return mkAtom(l, rel, r)
}

// AR: a fact whose operands are regular expressions over canonical operand
// strings (robust against wrappers such as phi(...) around an operand).
func AR(l, op, r string) atom {
	rel := map[string]relSet{"<": relLT, "<=": relLT | relEQ, ">": relGT, ">=": relGT | relEQ, "==": relEQ, "!=": relLT | relGT}[op]
	return atom{L: l, R: r, Rel: rel, lre: regexp.MustCompile(l), rre: regexp.MustCompile(r)}
}

// TR / FR: a boolean expression matching the pattern is true / false.
func TR(expr string) atom { return AR(expr, "==", "^true$") }
func FR(expr string) atom { return AR(expr, "!=", "^true$") }

// relFor: the relations the fact allows for atom a (operands of a in a's order), if it is about a.
func (f atom) relFor(a atom) (relSet, bool) {
	if f.lre == nil {
		if f.L == a.L && f.R == a.R {
			return f.Rel, true
		}
		return 0, false
	}
	if matchOperand(f.lre, a.L) && matchOperand(f.rre, a.R) {
		return f.Rel, true
	}
	if matchOperand(f.lre, a.R) && matchOperand(f.rre, a.L) {
		return f.Rel.mirror(), true
	}
	return 0, false
}

// matchOperand: the pattern describes the operand. An operand that is a merge of
// several values (`phi(a|b)` as a whole) is described only if every alternative is:
// a fact about one of the merged values says nothing about the merge.
func matchOperand(re *regexp.Regexp, s string) bool {
	if alts := topLevelPhi(s); alts != nil {
		for _, a := range alts {
			if !matchOperand(re, a) {
				return false
			}
		}
		return true
	}
	return re.MatchString(s)
}

// topLevelPhi: the alternatives of s if s is `phi(a|b|…)` and nothing else.
func topLevelPhi(s string) []string {
	if !strings.HasPrefix(s, "phi(") || !strings.HasSuffix(s, ")") {
		return nil
	}
	depth := 0
	var alts []string
	last := 4
	for j := 3; j < len(s); j++ {
		switch s[j] {
		case '(', '[':
			depth++
		case ')', ']':
			depth--
			if depth == 0 {
				if j != len(s)-1 {
					return nil // the phi is only a prefix (a callee or a receiver)
				}
				alts = append(alts, s[last:j])
			}
		case '|':
			if depth == 1 {
				alts = append(alts, s[last:j])
				last = j + 1
			}
		}
	}
	if len(alts) < 2 {
		return nil
	}
	return alts
}

// isTrue / isFalse facts about a boolean expression.
func T(expr string) atom { return mkAtom(expr, relEQ, "true") }
func F(expr string) atom { return mkAtom(expr, relLT|relGT, "true") }

// threeWay: v is the result of a three-way comparison cmp(a, b) in {-1,0,1}.
func (w *World) threeWay(v ssa.Value) (string, string, bool) {
	c, ok := stripConv(v).(*ssa.Call)
	if !ok {
		return "", "", false
	}
	cc := c.Common()
	f := cc.StaticCallee()
	if f == nil {
		return "", "", false
	}
	pk := ""
	if f.Pkg != nil {
		pk = f.Pkg.Pkg.Path()
	}
	switch {
	case f.Name() == "Compare" && len(cc.Args) == 2 && (pk == "bytes" || strings.HasSuffix(pk, "/types/bytes")):
		return w.Canon(cc.Args[0]), w.Canon(cc.Args[1]), true
	case (f.Name() == "Cmp" || f.Name() == "CmpBig") && len(cc.Args) == 2 && (pk == "github.com/holiman/uint256" || pk == "math/big"):
		return w.Canon(cc.Args[0]), w.Canon(cc.Args[1]), true
	}
	return "", "", false
}

// atomOf normalises a boolean SSA value.
func (w *World) atomOf(v ssa.Value) (atom, bool) {
	switch x := v.(type) {
	case *ssa.UnOp:
		if x.Op == token.NOT {
			a, ok := w.atomOf(x.X)
			if !ok {
				return atom{}, false
			}
			a.Rel = relAll &^ a.Rel
			return a, true
		}
	case *ssa.BinOp:
		rel, ok := relOfOp(x.Op)
		if !ok {
			return atom{}, false
		}
		// cmp(a,b) <op> k
		if a, b, ok := w.threeWay(x.X); ok {
			if k, isC := constInt(x.Y); isC {
				return mkAtom(a, signSet(rel, int(k), false), b), true
			}
		}
		if a, b, ok := w.threeWay(x.Y); ok {
			if k, isC := constInt(x.X); isC {
				return mkAtom(a, signSet(rel, int(k), true), b), true
			}
		}
		// boolean compared with a constant
		if isBoolType(x.X.Type()) {
			for _, pr := range [][2]ssa.Value{{x.X, x.Y}, {x.Y, x.X}} {
				if c, isC := pr[1].(*ssa.Const); isC && c.Value != nil && c.Value.Kind() == constant.Bool {
					a, ok := w.atomOf(pr[0])
					if !ok {
						return atom{}, false
					}
					if constant.BoolVal(c.Value) != (x.Op == token.EQL) {
						a.Rel = relAll &^ a.Rel
					}
					return a, true
				}
			}
		}
		return mkAtom(w.Canon(x.X), rel, w.Canon(x.Y)), true
	case *ssa.Call:
		cc := x.Common()
		// a one-expression boolean helper of the module: the atom of what it returns
		if f := cc.StaticCallee(); f != nil && len(w.inlineEnv) < 3 && isBoolType(x.Type()) && !w.noHelperAtoms {
			if res := w.simpleHelper(f); res != nil && len(f.Params) == len(cc.Args) {
				env := map[*ssa.Parameter]string{}
				for i, p := range f.Params {
					env[p] = w.Canon(cc.Args[i])
				}
				w.inlineEnv = append(w.inlineEnv, env)
				a, ok := w.atomOf(res)
				w.inlineEnv = w.inlineEnv[:len(w.inlineEnv)-1]
				if ok {
					return a, true
				}
			}
		}
		if f := cc.StaticCallee(); f != nil && f.Pkg != nil {
			pk := f.Pkg.Pkg.Path()
			switch {
			case pk == "bytes" && f.Name() == "Equal" && len(cc.Args) == 2:
				return mkAtom(w.Canon(cc.Args[0]), relEQ, w.Canon(cc.Args[1])), true
			case pk == "errors" && f.Name() == "Is" && len(cc.Args) == 2 && w.errorsIsIsIdentity():
				// no error type of the module has an Is or Unwrap method: errors.Is(a, b) is a == b
				return mkAtom(w.Canon(cc.Args[0]), relEQ, w.Canon(cc.Args[1])), true
			case pk == "github.com/holiman/uint256" && len(cc.Args) == 2:
				switch f.Name() {
				case "Lt":
					return mkAtom(w.Canon(cc.Args[0]), relLT, w.Canon(cc.Args[1])), true
				case "Gt":
					return mkAtom(w.Canon(cc.Args[0]), relGT, w.Canon(cc.Args[1])), true
				case "Eq":
					return mkAtom(w.Canon(cc.Args[0]), relEQ, w.Canon(cc.Args[1])), true
				}
			case pk == "github.com/holiman/uint256" && len(cc.Args) == 1 && f.Name() == "IsZero":
				return mkAtom(w.Canon(cc.Args[0]), relEQ, "0"), true
			}
		}
	}
	if isBoolType(v.Type()) {
		return mkAtom(w.Canon(v), relEQ, "true"), true
	}
	return atom{}, false
}

// errorsIsIsIdentity: no method named Is or Unwrap is declared on a module type
// that has an Error method, so errors.Is on the module's errors compares identity.
func (w *World) errorsIsIsIdentity() bool {
	if w.errIsMemo != 0 {
		return w.errIsMemo > 0
	}
	w.errIsMemo = 1
	for _, f := range w.ModuleFuncs() {
		if f.Signature.Recv() == nil || (f.Name() != "Is" && f.Name() != "Unwrap") {
			continue
		}
		if n := derefNamed(f.Signature.Recv().Type()); n != nil && methodOfNamed(w, n, "Error") != nil {
			w.errIsMemo = -1
		}
	}
	return w.errIsMemo > 0
}

// signSet: the relations s in {<,=,>} (as -1,0,1) for which  s <rel> k  holds
// (flipped: k <rel> s).
func signSet(rel relSet, k int, flipped bool) relSet {
	var out relSet
	for i, s := range []int{-1, 0, 1} {
		a, b := s, k
		if flipped {
			a, b = k, s
		}
		var holds bool
		switch {
		case a < b:
			holds = rel&relLT != 0
		case a == b:
			holds = rel&relEQ != 0
		default:
			holds = rel&relGT != 0
		}
		if holds {
			out |= relSet(1 << uint(i))
		}
	}
	return out
}

// factEval decides a condition from a set of facts; unknown otherwise. used
// records which facts were consulted (a fact no condition consults is vacuous).
type factEval struct {
	w     *World
	facts []atom
	used  map[int]bool
	next  func(ssa.Value) (bool, bool) // fallback evaluator (may be nil)
}

func (w *World) newFactEval(next func(ssa.Value) (bool, bool), facts ...atom) *factEval {
	return &factEval{w: w, facts: facts, used: map[int]bool{}, next: next}
}

func (fe *factEval) eval(v ssa.Value) (bool, bool) {
	// the condition as written, and with one-expression helpers replaced by what they return
	for variant := 0; variant < 3; variant++ {
		// 0: as written; 1: one-expression boolean helpers replaced by their body;
		// 2: additionally, one-expression helpers inside the operands expanded
		fe.w.noHelperAtoms = variant == 0
		savedInl := fe.w.inlineHelpers
		fe.w.inlineHelpers = variant == 2
		a, ok := fe.w.atomOf(v)
		fe.w.noHelperAtoms = false
		fe.w.inlineHelpers = savedInl
		if os.Getenv("RIGOCHECK_DEBUG") == "fe" {
			fmt.Fprintln(os.Stderr, "FE", variant, ok, a, "|", fe.w.Canon(v))
		}
		if !ok {
			continue
		}
		for i, f := range fe.facts {
			fr, ok := f.relFor(a)
			if !ok {
				continue
			}
			switch {
			case fr&^a.Rel == 0: // every possible relation satisfies the condition
				fe.used[i] = true
				return true, true
			case fr&a.Rel == 0:
				fe.used[i] = true
				return false, true
			}
		}
	}
	if fe.next != nil {
		return fe.next(v)
	}
	return false, false
}

// outcome of a function under facts
type outcome struct {
	ok, err, other int // numbers of paths ending in success / error or panic / anything else
	complete       bool
	okEvents       [][]string
	allConsulted   bool
}

// runUnder enumerates fn under the facts (plus a base evaluator) and summarises.
func (w *World) runUnder(fn *ssa.Function, base func(ssa.Value) (bool, bool), event func(ssa.Instruction) string, facts ...atom) outcome {
	fe := w.newFactEval(base, facts...)
	if event == nil {
		event = func(ssa.Instruction) string { return "" }
	}
	saved := w.branchMarkers
	w.branchMarkers = false
	paths, complete := w.enumPaths(fn, fe.eval, event, 4000)
	w.branchMarkers = saved
	o := outcome{complete: complete, allConsulted: len(fe.used) == len(facts)}
	if os.Getenv("RIGOCHECK_DEBUG") == "ru:"+fn.Name() {
		for _, p := range paths {
			pos := "-"
			if p.Ret != nil {
				pos = w.InstrPos(p.Ret)
			}
			fmt.Fprintln(os.Stderr, "RU", w.FName(fn), facts, p.Term, pos, p.Events)
		}
	}
	for _, p := range paths {
		switch p.Term {
		case "ok", "unknown":
			o.ok++
			o.okEvents = append(o.okEvents, p.Events)
		case "err", "panic":
			o.err++
		default:
			o.other++
		}
	}
	return o
}

// failsUnder: under the facts fn has no successful path (and the facts were
// actually consulted by some condition on the way).
func (w *World) failsUnder(fn *ssa.Function, base func(ssa.Value) (bool, bool), facts ...atom) (bool, string) {
	o := w.runUnder(fn, base, nil, facts...)
	switch {
	case !o.complete:
		return false, "path enumeration incomplete"
	case o.ok > 0:
		return false, fmt.Sprintf("%d successful path(s) remain", o.ok)
	case o.err == 0:
		return false, "no path at all under these facts"
	}
	return true, fmt.Sprintf("all %d path(s) fail", o.err)
}

var _ = types.Typ

// storeEvents labels the stores to the listed canonical addresses
// ("set:<addr>=<value>", helpers expanded by the enumerator).
func (w *World) storeEvents(addrs ...string) func(ssa.Instruction) string {
	set := map[string]bool{}
	for _, a := range addrs {
		set[a] = true
	}
	return func(in ssa.Instruction) string {
		st, ok := in.(*ssa.Store)
		if !ok {
			return ""
		}
		if _, isField := st.Addr.(*ssa.FieldAddr); !isField {
			return "" // spilled result slots print as their value
		}
		a := w.Canon(st.Addr)
		if !set[a] {
			return ""
		}
		return "set:" + a + "=" + w.Canon(st.Val)
	}
}

// ---- atoms from canonical condition strings (what the rules were written with)

// splitTopLevel finds the comparison operator of "(L op R)" at parenthesis depth 1.
func splitTopLevel(s string) (l, op, r string, ok bool) {
	if len(s) < 2 || s[0] != '(' || s[len(s)-1] != ')' {
		return "", "", "", false
	}
	depth := 0
	for i := 0; i < len(s); i++ {
		switch s[i] {
		case '(', '[':
			depth++
		case ')', ']':
			depth--
			if depth == 0 && i != len(s)-1 {
				return "", "", "", false // "(a)(b)": not one parenthesised comparison
			}
		case ' ':
			if depth != 1 {
				continue
			}
			for _, o := range []string{" <= ", " >= ", " == ", " != ", " < ", " > "} {
				if strings.HasPrefix(s[i:], o) {
					return s[1:i], strings.TrimSpace(o), s[i+len(o) : len(s)-1], true
				}
			}
		}
	}
	return "", "", "", false
}

var reThreeWay = regexp.MustCompile(`^(?:bytes\.Compare\((.+), (.+)\)|(.+)\.(?:Cmp|Compare)\((.+)\))$`)

// splitArgs splits "a, b" at the top-level comma.
func splitArgs2(s string) (string, string, bool) {
	depth := 0
	for i := 0; i < len(s); i++ {
		switch s[i] {
		case '(', '[':
			depth++
		case ')', ']':
			depth--
		case ',':
			if depth == 0 && strings.HasPrefix(s[i:], ", ") {
				return s[:i], s[i+2:], true
			}
		}
	}
	return "", "", false
}

// atomFromCanon parses a canonical condition string into an atom.
func atomFromCanon(s string) (atom, bool) {
	neg := false
	for strings.HasPrefix(s, "!") {
		neg = !neg
		s = s[1:]
	}
	var a atom
	if l, op, r, ok := splitTopLevel(s); ok {
		rel := map[string]relSet{"<": relLT, "<=": relLT | relEQ, ">": relGT, ">=": relGT | relEQ, "==": relEQ, "!=": relLT | relGT}[op]
		switch {
		case r == "false" || r == "true":
			inner, ok := atomFromCanon(l)
			if !ok {
				return atom{}, false
			}
			if (r == "true") != (op == "==") {
				inner.Rel = relAll &^ inner.Rel
			}
			a = inner
		case isIntLit(r) && threeWayOperands(l) != nil:
			ops := threeWayOperands(l)
			k := atoiSafe(r)
			a = mkAtom(ops[0], signSet(rel, k, false), ops[1])
		case isIntLit(l) && threeWayOperands(r) != nil:
			ops := threeWayOperands(r)
			k := atoiSafe(l)
			a = mkAtom(ops[0], signSet(rel, k, true), ops[1])
		default:
			a = mkAtom(l, rel, r)
		}
	} else if strings.HasPrefix(s, "bytes.Equal(") && strings.HasSuffix(s, ")") {
		x, y, ok := splitArgs2(s[len("bytes.Equal(") : len(s)-1])
		if !ok {
			return atom{}, false
		}
		a = mkAtom(x, relEQ, y)
	} else {
		a = mkAtom(s, relEQ, "true")
	}
	if neg {
		a.Rel = relAll &^ a.Rel
	}
	return a, true
}

func threeWayOperands(s string) []string {
	if strings.HasPrefix(s, "bytes.Compare(") && strings.HasSuffix(s, ")") {
		if x, y, ok := splitArgs2(s[len("bytes.Compare(") : len(s)-1]); ok {
			return []string{x, y}
		}
		return nil
	}
	// X.Cmp(Y) / X.Compare(Y): the last top-level ".Cmp(" / ".Compare("
	for _, m := range []string{".Cmp(", ".Compare("} {
		if i := strings.LastIndex(s, m); i > 0 && strings.HasSuffix(s, ")") {
			x, y := s[:i], s[i+len(m):len(s)-1]
			if balanced(x) && balanced(y) {
				return []string{x, y}
			}
		}
	}
	return nil
}

func balanced(s string) bool {
	d := 0
	for i := 0; i < len(s); i++ {
		switch s[i] {
		case '(', '[':
			d++
		case ')', ']':
			d--
			if d < 0 {
				return false
			}
		}
	}
	return d == 0
}

func isIntLit(s string) bool {
	if s == "" {
		return false
	}
	for i, c := range s {
		if c == '-' && i == 0 && len(s) > 1 {
			continue
		}
		if c < '0' || c > '9' {
			return false
		}
	}
	return true
}

func atoiSafe(s string) int {
	n := 0
	fmt.Sscan(s, &n)
	return n
}

// underFact: block b executes only when the fact holds — some If compares the
// fact's operands and the edge that dominates b admits only relations the fact
// admits. Spelling-independent (inverted tests, early returns, Cmp/Lt/Equal).
func (w *World) underFact(b *ssa.BasicBlock, f atom) bool {
	for _, blk := range b.Parent().Blocks {
		ifi, ok := lastInstr(blk).(*ssa.If)
		if !ok {
			continue
		}
		e := condEdge(ifi, b)
		if e == 0 {
			continue
		}
		for _, inl := range []bool{false, true} {
			w.inlineHelpers = inl
			a, ok := w.atomOf(ifi.Cond)
			w.inlineHelpers = false
			if !ok {
				continue
			}
			fr, ok := f.relFor(a)
			if !ok {
				continue
			}
			onEdge := a.Rel
			if e < 0 {
				onEdge = relAll &^ a.Rel
			}
			if onEdge&^fr == 0 {
				return true
			}
		}
	}
	return false
}

// runUnderBool: under the fact every path of the boolean function fn returns the
// constant `want` (and the fact was consulted by a condition on the way).
func (w *World) runUnderBool(fn *ssa.Function, fact atom, want bool) (bool, string) {
	fe := w.newFactEval(nil, fact)
	saved := w.branchMarkers
	w.branchMarkers = false
	paths, complete := w.enumPaths(fn, fe.eval, func(ssa.Instruction) string { return "" }, 2000)
	w.branchMarkers = saved
	if !complete {
		return false, "path enumeration incomplete"
	}
	if len(fe.used) == 0 {
		return false, "the comparison is never consulted"
	}
	n := 0
	for _, p := range paths {
		if p.Ret == nil {
			continue
		}
		ret := p.Ret
		if len(ret.Results) != 1 {
			return false, "unexpected exit"
		}
		n++
		c, isC := ret.Results[0].(*ssa.Const)
		if !isC || c.Value == nil || c.Value.Kind() != constant.Bool || constant.BoolVal(c.Value) != want {
			return false, "a path returns " + w.Canon(ret.Results[0])
		}
	}
	return n > 0, fmt.Sprintf("%d path(s)", n)
}
