package main

// C07 — restart equivalence at block boundaries (DESIGN §3 C07, R-1 … R-2)
// C08 — crash recovery (K-1 … K-3)
// C10 — validator updates mirror the staking ledger (U-1 … U-4)

import (
	"fmt"
	"go/ast"
	"go/token"
	"go/types"
	"os"
	"regexp"
	"sort"
	"strings"

	"golang.org/x/tools/go/ssa"
)

func init() {
	register("C07", checkC07)
	register("C08", checkC08)
	register("C10", checkC10)
}

// controllers: owning type -> (constructor, BeginBlock method owner, Commit method owner)
type ctrlInfo struct {
	pkg, typ, ctor string
}

var ctrls = []ctrlInfo{
	{"node", "RigoApp", "NewRigoApp"},
	{"ctrlers/account", "AcctCtrler", "NewAcctCtrler"},
	{"ctrlers/stake", "StakeCtrler", "NewStakeCtrler"},
	{"ctrlers/gov", "GovCtrler", "NewGovCtrler"},
	{"ctrlers/vm/evm", "EVMCtrler", "NewEVMCtrler"},
}

// persistent sources (role table): calls whose result is read from durable state
func (w *World) isPersistentSource(c *ssa.CallCommon) bool {
	nm := callName(c)
	if rn := recvNamed(c); rn != nil {
		switch rn.Obj().Name() {
		case "MetaDB":
			switch nm {
			case "LastBlockContext", "LastRewardHash", "ChainID", "LastBlockHeight", "LastBlockAppHash":
				return true
			}
		case "DB": // tm-db
			return nm == "Get" || nm == "Has" || nm == "Iterator"
		}
		if isLedgerType(rn) || isLedgerType(types.NewPointer(rn)) {
			switch nm {
			case "Get", "GetFinality", "Read", "IterateReadAllItems", "IterateReadAllFinalityItems", "Version":
				return true
			}
		}
	}
	if f := c.StaticCallee(); f != nil {
		switch nm {
		case "NewFinalityLedger", "NewSimpleLedger", "OpenMetaDB", "NewLevelDBDatabase", "NewDB":
			return true
		}
		_ = f
	}
	return false
}

type provenance int

const (
	provZero provenance = iota // constants, parameters, fresh empty values, fields never set
	provPersist
)

// fieldProv: provenance of the value held by (owner, field) when the
// constructor returns: join over the stores to that field in functions
// reachable from the constructor (and Info for RigoApp).
type provCtx struct {
	w       *World
	src     func(c *ssa.CallCommon) bool // what counts as a source (default: any persistent read)
	funcs   []*ssa.Function
	visitF  map[string]bool
	memo    map[string]provenance
	witness map[string]string
}

func (p *provCtx) fieldProv(owner, field string, depth int) provenance {
	key := owner + "." + field
	if v, ok := p.memo[key]; ok {
		return v
	}
	if p.visitF[key] || depth > 6 {
		return provZero
	}
	p.visitF[key] = true
	defer delete(p.visitF, key)
	res := provZero
	n := 0
	for _, fn := range p.funcs {
		for _, fs := range p.w.fieldStores(fn) {
			if fs.Owner == nil || fs.Owner.Obj().Name() != owner || fs.Field.Name() != field {
				continue
			}
			n++
			if p.valueProv(fs.Val, depth+1, map[ssa.Value]bool{}) == provPersist {
				res = provPersist
			} else {
				p.witness[key] = fmt.Sprintf("%s stores %s (no persistent read in its data dependencies)", p.w.FName(fn), p.w.Canon(fs.Val))
			}
		}
	}
	if n == 0 {
		p.witness[key] = "no store on the start-up path"
	}
	p.memo[key] = res
	return res
}

func (p *provCtx) valueProv(v ssa.Value, depth int, seen map[ssa.Value]bool) provenance {
	if depth > 12 || seen[v] {
		return provZero
	}
	seen[v] = true
	isSrc := p.src
	if isSrc == nil {
		isSrc = p.w.isPersistentSource
	}
	switch x := v.(type) {
	case *ssa.Parameter:
		// the parameter of a callback handed to a source (ledger iteration) carries what the source reads
		if fn := x.Parent(); fn != nil && fn.Parent() != nil {
			for _, c := range closureCallSites(fn) {
				if isSrc(c.Common()) {
					return provPersist
				}
			}
		}
		return provZero
	case *ssa.Const, *ssa.Global, *ssa.Function, *ssa.Builtin, *ssa.FreeVar:
		return provZero
	case *ssa.Call:
		if isSrc(x.Common()) {
			return provPersist
		}
		// an overlay read hands out the overlay's own object whatever the key was computed from
		if nm := callName(x.Common()); nm == "Get" || nm == "GetFinality" {
			if rn := recvNamed(x.Common()); rn != nil && (isLedgerType(rn) || isLedgerType(types.NewPointer(rn))) {
				return provZero
			}
		}
		// result depends on receiver/arguments
		for _, a := range x.Common().Args {
			if p.valueProv(a, depth+1, seen) == provPersist {
				return provPersist
			}
		}
		if x.Common().IsInvoke() {
			if p.valueProv(x.Common().Value, depth+1, seen) == provPersist {
				return provPersist
			}
		}
		// module callee: provenance of what it returns
		if f := x.Common().StaticCallee(); f != nil && p.w.InModule(f) && f.Blocks != nil {
			for _, b := range f.Blocks {
				if ret, ok := lastInstr(b).(*ssa.Return); ok && b != f.Recover {
					for i := range ret.Results {
						if p.valueProv(retResult(ret, i), depth+2, seen) == provPersist {
							return provPersist
						}
					}
				}
			}
		}
		return provZero
	case *ssa.Alloc:
		// a local aggregate (e.g. the backing array of variadic arguments): what is stored into it
		if x.Referrers() != nil {
			for _, ref := range *x.Referrers() {
				switch a := ref.(type) {
				case *ssa.Store:
					if a.Addr == x && p.valueProv(a.Val, depth+1, seen) == provPersist {
						return provPersist
					}
				case *ssa.IndexAddr, *ssa.FieldAddr:
					av := a.(ssa.Value)
					if av.Referrers() == nil {
						continue
					}
					for _, r2 := range *av.Referrers() {
						if st, ok := r2.(*ssa.Store); ok && st.Addr == av && p.valueProv(st.Val, depth+1, seen) == provPersist {
							return provPersist
						}
					}
				}
			}
		}
		return provZero
	case *ssa.UnOp:
		if x.Op == token.MUL {
			switch a := x.X.(type) {
			case *ssa.FieldAddr:
				n, f := fieldOf(a.X.Type(), a.Field)
				if n != nil && f != nil && isCSType(n) {
					return p.fieldProv(n.Obj().Name(), f.Name(), depth+1)
				}
				return p.valueProv(a.X, depth+1, seen)
			case *ssa.Alloc:
				if a.Referrers() != nil {
					for _, ref := range *a.Referrers() {
						if st, ok := ref.(*ssa.Store); ok && st.Addr == a && p.valueProv(st.Val, depth+1, seen) == provPersist {
							return provPersist
						}
						// the variable is captured by a function literal that assigns it
						// (a list filled by a ledger-iteration callback)
						if mc, ok := ref.(*ssa.MakeClosure); ok {
							cf, _ := mc.Fn.(*ssa.Function)
							for i, bnd := range mc.Bindings {
								if bnd != ssa.Value(a) || cf == nil || i >= len(cf.FreeVars) {
									continue
								}
								fv := cf.FreeVars[i]
								if fv.Referrers() == nil {
									continue
								}
								for _, r2 := range *fv.Referrers() {
									if st, isSt := r2.(*ssa.Store); isSt && st.Addr == ssa.Value(fv) && p.valueProv(st.Val, depth+1, seen) == provPersist {
										return provPersist
									}
								}
							}
						}
					}
				}
				return provZero
			}
		}
		return p.valueProv(x.X, depth+1, seen)
	}
	if in, ok := v.(ssa.Instruction); ok {
		for _, op := range in.Operands(nil) {
			if *op != nil && p.valueProv(*op, depth+1, seen) == provPersist {
				return provPersist
			}
		}
	}
	return provZero
}

// closureCallSites: the calls (in the enclosing function) that receive the
// anonymous function fn as an argument.
func closureCallSites(fn *ssa.Function) []ssa.CallInstruction {
	var out []ssa.CallInstruction
	par := fn.Parent()
	if par == nil {
		return nil
	}
	for _, b := range par.Blocks {
		for _, in := range b.Instrs {
			c, ok := in.(ssa.CallInstruction)
			if !ok {
				continue
			}
			for _, a := range c.Common().Args {
				a = stripConv(a)
				if mc, isMC := a.(*ssa.MakeClosure); isMC {
					a = mc.Fn
				}
				if a == ssa.Value(fn) {
					out = append(out, c)
				}
			}
		}
	}
	return out
}

// isLiveLedgerRead: a read of a ledger's CURRENT view (the state of the last
// committed block plus pending writes), as opposed to a view opened at a height
// with ImmutableLedgerAt or a dedicated meta record.
func (w *World) isLiveLedgerRead(c *ssa.CallCommon) bool {
	rn := recvNamed(c)
	if rn == nil || !(isLedgerType(rn) || isLedgerType(types.NewPointer(rn))) {
		return false
	}
	switch callName(c) {
	case "Get", "GetFinality", "Read", "IterateReadAllItems", "IterateReadAllFinalityItems":
	default:
		return false
	}
	var recv ssa.Value
	if c.IsInvoke() {
		recv = c.Value
	} else if len(c.Args) > 0 {
		recv = c.Args[0]
	}
	if recv != nil && strings.Contains(w.Canon(recv), "ImmutableLedgerAt(") {
		return false
	}
	return true
}

// consensusWrittenFields: controller-state fields written by functions that run in consensus context.
func consensusWrittenFields(w *World, x *ExecCtx) map[string][]string {
	out := map[string][]string{}
	for _, fn := range x.funcs {
		if x.entry[fn]&polT == 0 {
			continue
		}
		for _, e := range w.csEffects(fn) {
			if baseFresh(e.Base) {
				continue
			}
			k := e.Owner.Obj().Name() + "." + e.Field
			out[k] = append(out[k], w.FName(fn)+"@"+site(w, e.In))
		}
		// a field that holds a pointer to an object of a dependency's type which block
		// execution mutates in place (pointer-receiver method of that type, or the
		// pointer handed to a dependency's function): the object's state is in-memory
		// state just like the field itself
		for _, c := range CallsIn(fn) {
			cal := c.Common().StaticCallee()
			if cal == nil || w.InModule(cal) || cal.Pkg == nil {
				continue
			}
			for i, a := range c.Common().Args {
				ld, ok := stripConv(a).(*ssa.UnOp)
				if !ok || ld.Op != token.MUL {
					continue
				}
				fa, ok := ld.X.(*ssa.FieldAddr)
				if !ok {
					continue
				}
				n, f := fieldOf(fa.X.Type(), fa.Field)
				if n == nil || f == nil || !isCSType(n) || baseFresh(fa.X) {
					continue
				}
				pt, isPtr := f.Type().Underlying().(*types.Pointer)
				if !isPtr {
					continue
				}
				en, _ := pt.Elem().(*types.Named)
				if en == nil || en.Obj().Pkg() == nil || (en.Obj().Pkg().Path() == modPath || strings.HasPrefix(en.Obj().Pkg().Path(), modPath+"/")) || opaqueHandlePkg(en.Obj().Pkg().Path()) {
					continue
				}
				// receiver of a value-receiver method does not mutate
				if i == 0 && cal.Signature.Recv() != nil {
					if _, ptrRecv := cal.Signature.Recv().Type().(*types.Pointer); !ptrRecv {
						continue
					}
				}
				k := n.Obj().Name() + "." + f.Name()
				out[k] = append(out[k], w.FName(fn)+"@"+site(w, c))
			}
		}
	}
	return out
}

// opaqueHandlePkg: dependency types whose objects are handles to durable or
// stateless services (their in-memory state is not consensus state).
func opaqueHandlePkg(path string) bool {
	for _, p := range []string{"sync", "github.com/tendermint/tendermint/libs/log", "github.com/tendermint/tm-db", "github.com/ethereum/go-ethereum/ethdb", "github.com/cosmos/iavl", "github.com/ethereum/go-ethereum/trie", "github.com/ethereum/go-ethereum/core/rawdb", "github.com/ethereum/go-ethereum/params"} {
		if path == p || strings.HasPrefix(path, p+"/") {
			return true
		}
	}
	return false
}

// blockScoped: a store to owner.field always executes in a BeginBlock handler
// (it lies on every path to a normal return of that handler, possibly inside a
// callee that is itself called on every such path).
func (w *World) blockScoped(owner, field string) (bool, string) {
	for _, ci := range append(ctrls, ctrlInfo{"ctrlers/stake", "StakeLimiter", ""}) {
		bb := w.Method(ci.pkg, ci.typ, "BeginBlock")
		if bb == nil {
			continue
		}
		if ok, where := w.alwaysStores(bb, owner, field, 0); ok {
			return true, w.FName(bb) + " → " + where
		}
	}
	return false, ""
}

func (w *World) alwaysStores(fn *ssa.Function, owner, field string, depth int) (bool, string) {
	if depth > 3 || fn.Blocks == nil {
		return false, ""
	}
	onEveryNormalReturn := func(in ssa.Instruction) bool {
		for _, b := range fn.Blocks {
			ret, ok := lastInstr(b).(*ssa.Return)
			if !ok || b == fn.Recover {
				continue
			}
			if st := w.errState(ret); st == triNonNil {
				continue
			}
			if !instrDominates(in, ret) {
				return false
			}
		}
		return true
	}
	for _, e := range w.csEffects(fn) {
		if e.Owner.Obj().Name() == owner && e.Field == field && e.Kind == "store" && onEveryNormalReturn(e.In) {
			return true, site(w, e.In)
		}
	}
	for _, c := range CallsIn(fn) {
		f := c.Common().StaticCallee()
		if f == nil || !w.InModule(f) || f == fn {
			continue
		}
		if !onEveryNormalReturn(c) {
			continue
		}
		if ok, where := w.alwaysStores(f, owner, field, depth+1); ok {
			return true, w.FName(f) + " → " + where
		}
	}
	return false, ""
}

// handedOver: in the owner's Commit the field is nil at every return.
func (w *World) handedOver(owner, field string) (bool, string) {
	for _, ci := range ctrls {
		if ci.typ != owner {
			continue
		}
		cm := w.Method(ci.pkg, ci.typ, "Commit")
		if cm == nil {
			return false, ""
		}
		for _, fs := range w.fieldStores(cm) {
			if fs.Field.Name() != field || fs.Owner == nil || fs.Owner.Obj().Name() != owner {
				continue
			}
			c, isC := fs.Val.(*ssa.Const)
			if !isC || !c.IsNil() {
				continue
			}
			// unconditional, or under `field != nil`
			uncond := true
			for _, b := range cm.Blocks {
				if ret, ok := lastInstr(b).(*ssa.Return); ok && b != cm.Recover && w.errState(ret) != triNonNil && !instrDominates(fs.In, ret) {
					uncond = false
				}
			}
			if uncond || w.condCanonHolds(fs.In.Block(), "(recv."+field+" != nil)", 1) {
				return true, site(w, fs.In)
			}
		}
		// the same through helpers of Commit: on every successful path that starts with
		// the field set, the last thing done to the field is a store of nil
		where := ""
		ev := func(in ssa.Instruction) string {
			st, ok := in.(*ssa.Store)
			if !ok {
				return ""
			}
			fa, ok := st.Addr.(*ssa.FieldAddr)
			if !ok {
				return ""
			}
			n, f := fieldOf(fa.X.Type(), fa.Field)
			if n == nil || f == nil || f.Name() != field || n.Obj().Name() != owner {
				return ""
			}
			if c, isC := st.Val.(*ssa.Const); isC && c.IsNil() {
				where = site(w, in)
				return "NIL"
			}
			return "SET"
		}
		fe := w.newFactEval(nil, AR(`^recv\.`+regexp.QuoteMeta(field)+`$`, "!=", "^nil$"))
		saved := w.branchMarkers
		w.branchMarkers = false
		w.enumDepth = 3
		ps, complete := w.enumPaths(cm, fe.eval, ev, 4000)
		w.enumDepth = 0
		w.branchMarkers = saved
		if complete && len(fe.used) > 0 {
			all, nOK := true, 0
			for _, p := range ps {
				if p.Term != "ok" && p.Term != "unknown" {
					continue
				}
				nOK++
				if len(p.Events) == 0 || p.Events[len(p.Events)-1] != "NIL" {
					all = false
				}
			}
			if all && nOK > 0 {
				return true, where
			}
		}
	}
	return false, ""
}

func checkC07(w *World, r *Report) {
	r.Explanation = "Structural clause of C07: (R-1) every in-memory controller field that is written while a block executes is one of — block-scoped (a store to it lies on every path to a normal return of a BeginBlock handler), persisted (on the start-up path — constructor, and Info for the application — it receives a value data-dependent on a persistent read: meta store getters, tm-db Get, ledger reads; loads of other controller fields count only if those fields are themselves persisted on that path), or handed over (nil at every Commit return); (R-2) what Commit makes durable is what start-up loads: each persisted field's Commit-time store is paired with a durable write of the same value, and the codecs of the persisted records (BlockContext JSON, GovParams proto) cover every field symmetrically; (R-3) write-back discipline (C01 D-6): an overlay object mutated in place is marked in its overlay on every success path, so the overlay cache — which a restart empties — never holds state the tree lacks; (R-4) nil-ness that block execution tests survives the store: for every slice field of a ledger item that a consensus function compares with nil, the item's decoder hands the wire field on as it is (absent = nil), not a copy. R-2 asks for the installing store of GovCtrler.Commit on every successful path on which parameters were handed over. (R-6) no function on the consensus path enumerates an overlay's read cache (the exported ledger methods that range over a `gotItems` map, found by what they do): the cache holds what this process has read since it started, so the set of items such a walk visits differs between a restarted node and one that kept running."
	r.NotCovered = "equality of results after a restart (a two-run comparison); the edge where governance limits change in the very block before the restart; restart inside a block (C08)."
	x := NewExecCtx(w)
	r1(w, r, x)
	r2(w, r)
	// R-3 = C01 D-6: the overlay cache must equal the tree, or a restart (which
	// empties the cache) changes what execution reads
	fns := consFuncs(x)
	if r.importObs(w, func(t *Report) { d6(w, t, x, fns); d6b(w, t); d6c(w, t, x, fns); d6d(w, t, fns) }, "D-6", "R-3") == 0 {
		r.Undecided("R-3", "write-back", "write-back analysis produced no obligation")
	}
	startupLag(w, r, "R-1")
	r4(w, r, fns)
	// R-5: what Commit writes must not depend on what the read cache holds — a restart
	// empties it: only a write marks an item for the next commit (C18 L-6)
	if r.importObs(w, func(t *Report) { l6(w, t) }, "L-6", "R-5") == 0 {
		r.Undecided("R-5", "marks-for-commit", "no insertion into the overlay's updated items found")
	}
	r6(w, r, x)
	r.Floor("R-6", 2, "enumerators of the overlay read cache")
	r.Floor("R-3", 8, "write-back sites")
	r.Floor("R-4", 1, "item fields whose nil-ness block execution tests")
	r.Floor("R-1", 12, "controller fields written during block execution")
	r.Floor("R-2", 8, "persist/load pairs and codecs")
}

// r6: the overlays' read cache (`gotItems`) holds whatever this process has read
// since it started — it survives Commit and a restart empties it. Looking a key up
// in it is harmless (a miss falls through to the tree); *enumerating* it is not:
// the set of items a walk visits then depends on the process's age. The
// enumerators are found by what they do — an exported method of the ledger package
// that ranges over a `gotItems` map, hands one to a helper that ranges over its
// parameter, or calls another enumerator — and none may have a caller outside the
// ledger package on the consensus path.
func r6(w *World, r *Report, x *ExecCtx) {
	ranges := func(fn *ssa.Function, v ssa.Value) bool {
		if v.Referrers() == nil {
			return false
		}
		for _, ref := range *v.Referrers() {
			if _, ok := ref.(*ssa.Range); ok {
				return true
			}
		}
		return false
	}
	isCacheMap := func(v ssa.Value) bool {
		_, isMap := v.Type().Underlying().(*types.Map)
		return isMap && strings.HasSuffix(w.Canon(v), ".gotItems")
	}
	enum := map[*ssa.Function]bool{}
	var cands []*ssa.Function
	for _, fn := range w.ModuleFuncs() {
		if fn.Blocks == nil || !inLedgerPkg(w, fn) {
			continue
		}
		if o := fn.Origin(); o != nil {
			continue // the generic origin stands for its instances
		}
		cands = append(cands, fn)
	}
	for round := 0; round < 4; round++ {
		for _, fn := range cands {
			if enum[fn] {
				continue
			}
			for _, b := range fn.Blocks {
				for _, in := range b.Instrs {
					switch t := in.(type) {
					case *ssa.Range:
						if isCacheMap(t.X) {
							enum[fn] = true
						}
					case ssa.CallInstruction:
						cal := t.Common().StaticCallee()
						if cal == nil {
							continue
						}
						if o := cal.Origin(); o != nil {
							cal = o
						}
						if enum[cal] {
							enum[fn] = true
						}
						for i, a := range t.Common().Args {
							if isCacheMap(a) && cal.Blocks != nil && i < len(cal.Params) && ranges(cal, cal.Params[i]) {
								enum[fn] = true
							}
						}
					}
				}
			}
		}
	}
	n := 0
	var names []string
	byName := map[string]*ssa.Function{}
	for fn := range enum {
		if fn.Signature.Recv() == nil || !token.IsExported(fn.Name()) {
			continue
		}
		nm := w.FName(fn)
		names = append(names, nm)
		byName[nm] = fn
	}
	sort.Strings(names)
	for _, nm := range names {
		fn := byName[nm]
		n++
		bad := ""
		callers := w.Callers(fn)
		if rn := derefNamed(fn.Signature.Recv().Type()); rn != nil {
			if m := w.Method(pkgLedger, rn.Obj().Name(), fn.Name()); m != nil && m != fn {
				callers = append(callers, w.Callers(m)...)
			}
		}
		for _, cs := range callers {
			if cs.Caller != nil && x.inSet[cs.Caller] && x.entry[cs.Caller]&polT != 0 && !inLedgerPkg(w, cs.Caller) {
				bad = w.FName(cs.Caller) + "@" + site(w, cs.Site)
			}
		}
		r.Check(bad == "", "R-6", "cache-enumerator-unused:"+nm, "this walk over the overlay's read cache (what the process has read since it started) has no caller on the consensus path", "block execution enumerates the overlay's read cache, which a restart empties: the items visited depend on the age of the process: "+bad, fnSite(w, fn))
	}
	if n == 0 {
		r.Undecided("R-6", "cache-enumerators", "no enumerator of the overlay read cache found in the ledger package (IterateGotItems / IterateFinalityGotItems expected)")
	}
}

// r4: nil-ness that block execution tests must survive the round trip through the
// store. The long-running node keeps item objects in the overlay cache; a
// restarted node decodes them afresh. For every field of a ledger item whose
// nil-ness a consensus function tests (`x.F == nil`), the item's decoder must
// hand the wire field on as it is (an absent field decodes to nil, as a field
// never set is nil in memory) — not a copy, which is empty but not nil.
func r4(w *World, r *Report, fns []*ssa.Function) {
	type fld struct {
		owner *types.Named
		name  string
		site  string
	}
	tested := map[string]fld{}
	for _, fn := range fns {
		for _, b := range fn.Blocks {
			for _, in := range b.Instrs {
				bo, ok := in.(*ssa.BinOp)
				if !ok || (bo.Op != token.EQL && bo.Op != token.NEQ) {
					continue
				}
				for _, pr := range [][2]ssa.Value{{bo.X, bo.Y}, {bo.Y, bo.X}} {
					c, isC := pr[1].(*ssa.Const)
					if !isC || !c.IsNil() {
						continue
					}
					ld, isLd := stripConv(pr[0]).(*ssa.UnOp)
					if !isLd || ld.Op != token.MUL {
						continue
					}
					fa, isFA := ld.X.(*ssa.FieldAddr)
					if !isFA {
						continue
					}
					n, f := fieldOf(fa.X.Type(), fa.Field)
					if n == nil || f == nil || n.Obj().Pkg() == nil || !w.InModulePkg(n.Obj().Pkg().Path()) {
						continue
					}
					if _, isSlice := f.Type().Underlying().(*types.Slice); !isSlice {
						continue
					}
					// a ledger item: it has a Decode method
					if dm := methodOfNamed(w, n, "Decode"); dm == nil || dm.Blocks == nil {
						continue
					}
					k := n.Obj().Name() + "." + f.Name()
					if _, seen := tested[k]; !seen {
						tested[k] = fld{n, f.Name(), site(w, in)}
					}
				}
			}
		}
	}
	var keys []string
	for k := range tested {
		keys = append(keys, k)
	}
	sort.Strings(keys)
	if os.Getenv("RIGOCHECK_DEBUG") == "r4" {
		fmt.Fprintln(os.Stderr, "R4", len(fns), keys)
	}
	for _, k := range keys {
		t := tested[k]
		dm := methodOfNamed(w, t.owner, "Decode")
		bad := ""
		n := 0
		for _, g := range w.withModuleCallees(dm, 2) {
			for _, fs := range w.fieldStores(g) {
				if fs.Owner == nil || fs.Owner.Obj() != t.owner.Obj() || fs.Field.Name() != t.name {
					continue
				}
				n++
				// the wire field handed on as it is: a load of a field of the decoded message
				ld, isLd := stripConv(fs.Val).(*ssa.UnOp)
				okv := false
				if isLd && ld.Op == token.MUL {
					if wfa, isFA := ld.X.(*ssa.FieldAddr); isFA {
						if wn, _ := fieldOf(wfa.X.Type(), wfa.Field); wn != nil && wn.Obj() != t.owner.Obj() {
							okv = true
						}
					}
				}
				if !okv {
					bad = "the decoder stores " + w.Canon(fs.Val) + " (" + site(w, fs.In) + ")"
				}
			}
		}
		key := k + ":decode-preserves-nil"
		switch {
		case bad != "":
			r.Violate("R-4", key, "block execution tests this field against nil ("+t.site+") but the decoder does not hand the wire field on as it is: "+bad+"; an item decoded after a restart then differs in nil-ness from the object a running node keeps in its cache", nil, fnSite(w, dm))
		case n == 0:
			r.OK("R-4", key, "the item is decoded in place by its codec library (no store of its own to the field)", fnSite(w, dm))
		default:
			r.OK("R-4", key, "the decoder hands the wire field on as it is: absent on the wire is nil in memory, as for an object that never set the field", fnSite(w, dm))
		}
	}
}

func methodOfNamed(w *World, n *types.Named, name string) *ssa.Function {
	for i := 0; i < n.NumMethods(); i++ {
		if m := n.Method(i); m.Name() == name {
			return w.Prog.FuncValue(m)
		}
	}
	return nil
}

func r1(w *World, r *Report, x *ExecCtx) {
	written := consensusWrittenFields(w, x)
	// start-up functions
	var roots []*ssa.Function
	for _, ci := range ctrls {
		if f := w.Func(ci.pkg, ci.ctor); f != nil {
			roots = append(roots, f)
		}
	}
	if f := w.appMethod("Info"); f != nil {
		roots = append(roots, f)
	}
	if len(roots) < 6 {
		r.Undecided("R-1", "startup", "constructors / Info do not all resolve")
		return
	}
	reach := w.ReachFrom(roots, nil)
	p := &provCtx{w: w, funcs: reach.ModuleFuncs(), visitF: map[string]bool{}, memo: map[string]provenance{}, witness: map[string]string{}}
	var keys []string
	for k := range written {
		keys = append(keys, k)
	}
	sort.Strings(keys)
	for _, k := range keys {
		parts := strings.SplitN(k, ".", 2)
		owner, field := parts[0], parts[1]
		if owner == "StateDBWrapper" || owner == "BlockContext" || owner == "MetaDB" || owner == "powerObj" {
			// per-block objects: created afresh (BeginBlock / Commit) or caches of durable data
			continue
		}
		pkg := ""
		for tn, pk := range csTypes {
			if tn == owner {
				pkg = pk[strings.LastIndex(pk, "/")+1:]
			}
		}
		key := pkg + "." + owner + "." + field
		sites := written[k]
		if len(sites) > 3 {
			sites = sites[:3]
		}
		if ok, where := w.blockScoped(owner, field); ok {
			r.OK("R-1", key, "block-scoped: reassigned on every path of a BeginBlock handler ("+where+")", sites...)
			continue
		}
		if p.fieldProv(owner, field, 0) == provPersist {
			r.OK("R-1", key, "persisted: on the start-up path the field receives a value read from durable state", sites...)
			continue
		}
		if ok, where := w.handedOver(owner, field); ok {
			r.OK("R-1", key, "handed over: nil at every Commit return ("+where+")", sites...)
			continue
		}
		r.Violate("R-1", key, "in-memory state that influences block execution is not reconstructed from persisted state at start-up: "+p.witness[owner+"."+field], nil, sites...)
		// every controller entry point through which block execution READS that state is a
		// place where a restarted node can answer differently: one obligation per entry, so
		// that a new use of the state is a new violation
		for _, ent := range w.fieldReadEntries(x, owner, field) {
			r.Violate("R-1", key+":read-in:"+ent.name, "block execution reads this state here, so after a restart (when it is empty / stale) this entry point can act differently from a node that was never restarted", nil, ent.site)
		}
	}
}

type readEntry struct{ name, site string }

// fieldReadEntries: the exported methods of the owner's package (controller entry
// points) that run in consensus context and read owner.field — themselves or
// through functions of the same package they call.
func (w *World) fieldReadEntries(x *ExecCtx, owner, field string) []readEntry {
	reads := func(fn *ssa.Function) string {
		for _, b := range fn.Blocks {
			for _, in := range b.Instrs {
				fa, ok := in.(*ssa.FieldAddr)
				if !ok {
					continue
				}
				n, f := fieldOf(fa.X.Type(), fa.Field)
				if n == nil || f == nil || n.Obj().Name() != owner || f.Name() != field || fa.Referrers() == nil {
					continue
				}
				for _, ref := range *fa.Referrers() {
					if ld, isLd := ref.(*ssa.UnOp); isLd && ld.Op == token.MUL {
						return site(w, ld)
					}
				}
			}
		}
		return ""
	}
	var out []readEntry
	for _, fn := range x.funcs {
		if x.entry[fn]&polT == 0 || fn.Parent() != nil || fn.Signature.Recv() == nil || !token.IsExported(fn.Name()) {
			continue
		}
		pkg := w.FuncPkgPath(fn)
		seen := map[*ssa.Function]bool{}
		where := ""
		var walk func(f *ssa.Function, d int)
		walk = func(f *ssa.Function, d int) {
			if f == nil || f.Blocks == nil || seen[f] || d > 4 || where != "" {
				return
			}
			seen[f] = true
			if s := reads(f); s != "" {
				where = s
				return
			}
			for _, a := range f.AnonFuncs {
				walk(a, d+1)
			}
			for _, c := range CallsIn(f) {
				if cal := c.Common().StaticCallee(); cal != nil && w.FuncPkgPath(cal) == pkg && (cal.Parent() != nil || !token.IsExported(cal.Name()) || cal.Signature.Recv() == nil) {
					walk(cal, d+1)
				}
			}
		}
		walk(fn, 0)
		if where != "" {
			out = append(out, readEntry{w.FName(fn), where})
		}
	}
	sort.Slice(out, func(i, j int) bool { return out[i].name < out[j].name })
	return out
}

func r2(w *World, r *Report) {
	// RigoApp: Commit persists the context it installs; Info loads it
	cm := needFn(r, "R-2", w, fref{"node", "RigoApp", "Commit"})
	if cm != nil {
		// evaluated on the paths of Commit (helpers, closures and handler tables expanded):
		// hash the four controllers' hashes, set it as the app hash of the next block's
		// context, write that context to the meta store, install it as lastBlockCtx
		want := []string{"recv.govCtrler.Commit()#0", "recv.acctCtrler.Commit()#0", "recv.stakeCtrler.Commit()#0", "recv.vmCtrler.Commit()#0"}
		ev := func(in ssa.Instruction) string {
			switch x := in.(type) {
			case ssa.CallInstruction:
				cc := x.Common()
				switch {
				case w.callIs(cc, fref{"types/crypto", "", "DefaultHash"}) && len(cc.Args) == 1 && strings.HasSuffix(w.FuncPkgPath(in.Parent()), "/node"):
					var ins []string
					if sl, isSl := cc.Args[0].(*ssa.Slice); isSl {
						if a, isA := sl.X.(*ssa.Alloc); isA {
							if elems, ok := varargElems(a); ok {
								for _, e := range elems {
									ins = append(ins, w.canonOnPathFallible(e))
								}
							}
						}
					}
					if ins == nil && w.cur != nil && w.cur.st != nil {
						if base := localArrayBase(cc.Args[0]); base != nil {
							for i := int64(0); i < 16; i++ {
								mv, ok := w.cur.st.mem[memKey{base, i}]
								if !ok {
									break
								}
								ins = append(ins, mv.s)
							}
						}
					}
					return "HASH\x01" + strings.Join(ins, ",")
				case callName(cc) == "SetAppHash":
					rcv, a := callRecvArgs(cc)
					if len(a) == 1 && w.Canon(rcv) == "recv.nextBlockCtx" {
						isHash := w.valueIs(a[0], func(s string) bool { return strings.HasPrefix(s, "crypto.DefaultHash(") })
						return fmt.Sprintf("APP\x01%v", isHash)
					}
				case callName(cc) == "PutLastBlockContext":
					_, a := callRecvArgs(cc)
					if len(a) == 1 {
						return "PUT\x01" + w.Canon(a[0])
					}
				}
			case *ssa.Store:
				if _, isF := x.Addr.(*ssa.FieldAddr); isF && w.Canon(x.Addr) == "recv.lastBlockCtx" {
					return "INSTALL\x01" + w.Canon(x.Val)
				}
			}
			return ""
		}
		savedBM := w.branchMarkers
		w.branchMarkers = false
		w.psEvents = true
		paths, complete := w.enumPaths(cm, w.deadErrEval, ev, 6000)
		w.psEvents = false
		w.branchMarkers = savedBM
		ok := complete
		nOK := 0
		why := ""
		for _, p := range paths {
			if p.Term != "ok" && p.Term != "unknown" {
				continue
			}
			nOK++
			pos := map[string]int{}
			val := map[string]string{}
			cnt := map[string]int{}
			for i, e := range p.Events {
				parts := strings.SplitN(e, "\x01", 2)
				pos[parts[0]] = i
				val[parts[0]] = parts[1]
				cnt[parts[0]]++
			}
			switch {
			case cnt["HASH"] != 1 || val["HASH"] != strings.Join(want, ","):
				ok, why = false, "the app hash is not the hash of the four controllers' hashes in the order gov, account, stake, vm: "+val["HASH"]
			case cnt["APP"] != 1 || val["APP"] != "true" || pos["APP"] < pos["HASH"]:
				ok, why = false, "the hash is not set as the app hash of the next block's context"
			case cnt["PUT"] != 1 || val["PUT"] != "recv.nextBlockCtx" || pos["PUT"] < pos["APP"]:
				ok, why = false, "the context written to the meta store is not the next block's context with its app hash set"
			case cnt["INSTALL"] < 1 || val["INSTALL"] != "recv.nextBlockCtx":
				ok, why = false, "the context installed as lastBlockCtx is not the one written"
			}
		}
		if nOK == 0 {
			ok, why = false, "Commit has no successful path"
		}
		r.Check(ok, "R-2", "RigoApp.Commit:persists-installed-context", "the block context that becomes lastBlockCtx (with its app hash = hash of the four controllers' hashes) is the one written to the meta store", "Commit does not persist exactly the block context it installs as lastBlockCtx (with the app hash set before): "+why, fnSite(w, cm))
	}
	inf := needFn(r, "R-2", w, fref{"node", "RigoApp", "Info"})
	if inf != nil {
		st, _ := w.findStoreDeep(inf, "recv.lastBlockCtx", "recv.metaDB.LastBlockContext()")
		if st == nil {
			// the loading moved into a helper that hands the context back
			for _, g := range w.withModuleCallees(inf, 2) {
				for _, s2 := range w.storesTo(g, "recv.lastBlockCtx") {
					for _, c := range w.mayCanons(s2.Val, 4) {
						if c == "recv.metaDB.LastBlockContext()" {
							st = s2
						}
					}
				}
			}
		}
		r.Check(st != nil, "R-2", "RigoApp.Info:loads-context", "Info loads the persisted block context", "Info does not load the persisted block context", fnSite(w, inf))
		// height and hash reported come from it
		okRet := false
		for _, g := range w.withModuleCallees(inf, 2) {
			for _, fs := range w.fieldStores(g) {
				if fs.Field.Name() != "LastBlockAppHash" {
					continue
				}
				if containsAny(w.mayCanons(fs.Val, 4), "recv.lastBlockCtx.AppHash()", "recv.metaDB.LastBlockContext().AppHash()") {
					okRet = true
				}
				// AppHash() of a local that holds the loaded context (or its legacy substitute)
				if call, isC := stripConv(fs.Val).(*ssa.Call); isC && callName(call.Common()) == "AppHash" {
					if rcv, _ := callRecvArgs(call.Common()); rcv != nil {
						for _, c := range w.mayCanons(rcv, 4) {
							if c == "recv.lastBlockCtx" || c == "recv.metaDB.LastBlockContext()" {
								okRet = true
							}
						}
					}
				}
			}
		}
		r.Check(okRet, "R-2", "RigoApp.Info:reports-persisted", "the reported app hash is the persisted one", "Info does not report the persisted app hash", fnSite(w, inf))
	}
	mp := needFn(r, "R-2", w, fref{pkgCT, "MetaDB", "PutLastBlockContext"})
	mg := needFn(r, "R-2", w, fref{pkgCT, "MetaDB", "LastBlockContext"})
	if mp != nil && mg != nil {
		okp := w.findCallMatch(mp, mustRe(`^recv\.put\("bc", json\.Marshal\(p0\)#0\)$`))
		okg := w.findCall(mg, `recv.get("bc")`)
		r.Check(len(okp) == 1 && okg != nil, "R-2", "MetaDB:context-key", "the context is stored and loaded under the same key, JSON-encoded", "PutLastBlockContext and LastBlockContext do not use the same key / encoding", fnSite(w, mp), fnSite(w, mg))
	}
	pt := needFn(r, "R-2", w, fref{pkgCT, "MetaDB", "put"})
	if pt != nil {
		c := w.findCallMatchI(pt, mustRe(`^recv\.db\.SetSync\(\[\]byte\(p0\), p1\)$`))
		r.Check(len(c) == 1, "R-2", "MetaDB.put:durable", "meta records are written with SetSync", "MetaDB.put is not a synchronous write of (key, value)", fnSite(w, pt))
	}
	// BlockContext codec symmetric
	w.codecSymmetric(r, "R-2", pkgCT, "BlockContext", "MarshalJSON", "UnmarshalJSON", []string{"blockInfo", "appHash", "feeSum", "txsCnt"})
	// GovParams proto codec covers all fields
	gp := w.Named(pkgCT, "GovParams")
	if gp != nil {
		var fields []string
		for _, f := range structFields(gp) {
			if f.Name() != "mtx" {
				fields = append(fields, f.Name())
			}
		}
		w.codecSymmetric(r, "R-2", pkgCT, "GovParams", "toProto", "fromProto", fields)
	}
	// StakeCtrler: reward hash
	sc := needFn(r, "R-2", w, fref{pkgStake, "StakeCtrler", "Commit"})
	if sc != nil {
		// on every path through Commit (helpers expanded) the hash kept in memory and
		// the hash persisted are the same value, written together or not at all
		ev := func(in ssa.Instruction) string {
			switch x := in.(type) {
			case ssa.CallInstruction:
				if callName(x.Common()) == "PutLastRewardHash" {
					if _, a := callRecvArgs(x.Common()); len(a) == 1 {
						return "PUT\x01" + w.canonOnPathFallible(w.phiOnPath(a[0]))
					}
					return "PUT\x01?"
				}
			case *ssa.Store:
				if fa, isFA := x.Addr.(*ssa.FieldAddr); isFA {
					if n, f := fieldOf(fa.X.Type(), fa.Field); n != nil && f != nil && f.Name() == "lastRwdHash" && n.Obj().Name() == "StakeCtrler" {
						return "SET\x01" + w.canonOnPathFallible(w.phiOnPath(x.Val))
					}
				}
			}
			return ""
		}
		w.psEvents = true
		paths, complete := w.enumPaths(sc, func(ssa.Value) (bool, bool) { return false, false }, ev, 4000)
		w.psEvents = false
		ok := complete
		nBoth := 0
		for _, p := range paths {
			if p.Term != "ok" && p.Term != "unknown" {
				continue
			}
			var puts, sets []string
			for _, e := range p.Events {
				if strings.HasPrefix(e, "PUT\x01") {
					puts = append(puts, e[4:])
				} else {
					sets = append(sets, e[4:])
				}
			}
			if len(puts) != len(sets) || len(puts) > 1 {
				ok = false
			} else if len(puts) == 1 {
				if puts[0] != sets[0] || strings.HasPrefix(puts[0], "?") {
					ok = false
				}
				nBoth++
			}
		}
		ok = ok && nBoth > 0
		r.Check(ok, "R-2", "StakeCtrler.Commit:reward-hash", "the reward hash kept in memory is the one persisted, under the same condition", "StakeCtrler.Commit keeps a reward hash in memory that it does not persist (restart would compute another app hash)", fnSite(w, sc))
	}
	ns := needFn(r, "R-2", w, fref{pkgStake, "", "NewStakeCtrler"})
	if ns != nil {
		ok := false
		for _, fs := range w.fieldStores(ns) {
			if fs.Field.Name() == "lastRwdHash" && strings.HasSuffix(w.Canon(fs.Val), ".LastRewardHash()") {
				ok = true
			}
		}
		r.Check(ok, "R-2", "NewStakeCtrler:reward-hash", "the constructor reloads the persisted reward hash", "the constructor does not reload the persisted reward hash", fnSite(w, ns))
	}
	// EVMCtrler: height and root
	ec := needFn(r, "R-2", w, fref{"ctrlers/vm/evm", "EVMCtrler", "Commit"})
	if ec != nil {
		// on every successful path (helpers expanded): the in-memory height and root are
		// updated, then both records are put into the batch, then the batch is written synchronously
		re1 := mustRe(`\.Set\(evm\.lastBlockHeightKey, \[\]byte\(strconv\.FormatInt\(recv\.lastBlockHeight, 10\)\)\)$`)
		re2 := mustRe(`\.Set\(evm\.blockKey\(recv\.lastBlockHeight\), recv\.lastRootHash\)$`)
		re3 := mustRe(`\.WriteSync\(\)$`)
		ev := func(in ssa.Instruction) string {
			switch x := in.(type) {
			case ssa.CallInstruction:
				c := w.canonCall(x.Common(), 0)
				switch {
				case re1.MatchString(c):
					return "B1"
				case re2.MatchString(c):
					return "B2"
				case re3.MatchString(c):
					return "WS"
				}
			case *ssa.Store:
				if _, isField := x.Addr.(*ssa.FieldAddr); !isField {
					return "" // e.g. a spilled result slot, which prints as its value
				}
				switch w.Canon(x.Addr) {
				case "recv.lastBlockHeight":
					return "SH"
				case "recv.lastRootHash":
					return "SR"
				}
			}
			return ""
		}
		paths, complete := w.enumPaths(ec, w.deadErrEval, ev, 4000)
		ok := complete
		nOK := 0
		for _, p := range paths {
			if p.Term != "ok" && p.Term != "unknown" {
				continue
			}
			nOK++
			pos := map[string]int{}
			cnt := map[string]int{}
			for i, e := range p.Events {
				pos[e] = i
				cnt[e]++
			}
			if cnt["B1"] != 1 || cnt["B2"] != 1 || cnt["WS"] != 1 || cnt["SH"] < 1 || cnt["SR"] < 1 ||
				!(pos["SH"] < pos["B1"] && pos["SR"] < pos["B1"] && pos["SH"] < pos["B2"] && pos["SR"] < pos["B2"] && pos["B1"] < pos["WS"] && pos["B2"] < pos["WS"]) {
				ok = false
			}
		}
		ok = ok && nOK > 0
		r.Check(ok, "R-2", "EVMCtrler.Commit:height-and-root", "the last height and the state root kept in memory are written (synchronously) to the EVM meta store", "EVMCtrler.Commit does not persist exactly the height and root it keeps in memory", fnSite(w, ec))
	}
	ne := needFn(r, "R-2", w, fref{"ctrlers/vm/evm", "", "NewEVMCtrler"})
	if ne != nil {
		okH, okR := false, false
		for _, fs := range w.fieldStores(ne) {
			// the loading may sit in a helper that hands height and root back
			for _, c := range w.mayCanons(fs.Val, 3) {
				switch fs.Field.Name() {
				case "lastBlockHeight":
					okH = okH || strings.Contains(c, "strconv.ParseInt(string(") && strings.Contains(c, ".Get(evm.lastBlockHeightKey)#0")
				case "lastRootHash":
					okR = okR || strings.Contains(c, ".Get(evm.blockKey(") && strings.HasSuffix(c, "#0")
				}
			}
		}
		r.Check(okH && okR, "R-2", "NewEVMCtrler:height-and-root", "the constructor reloads the persisted height and the root recorded for it", "the EVM controller does not start from the persisted height and its state root", fnSite(w, ne))
	}
	// GovCtrler: params
	ng := needFn(r, "R-2", w, fref{"ctrlers/gov", "", "NewGovCtrler"})
	if ng != nil {
		ok := false
		for _, fs := range w.fieldStores(ng) {
			if os.Getenv("RIGOCHECK_DEBUG") == "ngp" && fs.Field.Name() == "GovParams" {
				fmt.Fprintln(os.Stderr, "NGP", w.govParamsKeyCanon(), w.mayCanons(fs.Val, 4))
			}
			if fs.Field.Name() == "GovParams" && (strings.Contains(w.CanonDeep(fs.Val), ".Get("+w.govParamsKeyCanon()+")#0") || containsAny(w.mayCanons(fs.Val, 4), ".Get("+w.govParamsKeyCanon()+")#0")) {
				ok = true
			}
		}
		r.Check(ok, "R-2", "NewGovCtrler:params", "the constructor loads the governance parameters committed in the params ledger", "the governance controller does not start from the committed parameters", fnSite(w, ng))
		// ... and installs them as they are: a running node holds what Commit installed
		// (zero means zero), so a constructor that completes, defaults or otherwise edits
		// the loaded record starts a restarted node with other parameters
		edited := ""
		for _, c := range CallsIn(ng) {
			cal := c.Common().StaticCallee()
			if cal == nil || !w.InModule(cal) || cal.Blocks == nil || len(cal.Params) != len(c.Common().Args) {
				continue
			}
			for ai, a := range c.Common().Args {
				if !strings.Contains(w.CanonDeep(a), ".Get("+w.govParamsKeyCanon()+")#0") {
					continue
				}
				// the callee (or what it calls, one level) writes through that parameter
				for _, hf := range w.withModuleCallees(cal, 1) {
					for _, fs := range w.fieldStores(hf) {
						if fa, isFA := fs.Addr.(*ssa.FieldAddr); isFA && hf == cal && stripConv(fa.X) == ssa.Value(cal.Params[ai]) {
							edited = w.FName(cal) + " writes " + fs.Field.Name() + " of the loaded record (" + site(w, c) + ")"
						}
					}
				}
			}
		}
		r.Check(edited == "", "R-2", "NewGovCtrler:params-as-committed", "the loaded record is installed unchanged", "the loaded parameters are edited before they are installed: "+edited, fnSite(w, ng))
	}
	if af := w.applyFlow(); af.fn == nil {
		r.Undecided("R-2", "applyProposals", "applyProposals callback not found")
	} else {
		r.Check(af.persistOK, "R-2", "applyProposals:params-persisted", "the parameters that become active at Commit are the (merged) ones recorded in the params ledger", "the parameters activated at Commit are not the ones recorded in the params ledger (restart would load others): "+af.persWhy, fnSite(w, af.fn))
	}
	gc := needFn(r, "R-2", w, fref{"ctrlers/gov", "GovCtrler", "Commit"})
	if gc != nil {
		st, stFn := w.findStoreDeep(gc, "recv.GovParams", "recv.newGovParams")
		// on every successful path on which parameters were handed over (the ledger record
		// a restart loads is written wherever they are handed over: applyProposals)
		installed := st != nil && w.condHoldsDeep(gc, stFn, st, "(recv.newGovParams != nil)", 1, 0)
		if installed {
			ev := func(in ssa.Instruction) string {
				if in == ssa.Instruction(st) {
					return "INSTALL"
				}
				return ""
			}
			fe := w.newFactEval(nil, AR(`^recv\.newGovParams$`, "!=", "^nil$"))
			saved := w.branchMarkers
			w.branchMarkers = false
			w.enumDepth = 3
			ps, complete := w.enumPaths(gc, fe.eval, ev, 4000)
			w.enumDepth = 0
			w.branchMarkers = saved
			nOK := 0
			for _, p := range ps {
				if p.Term != "ok" && p.Term != "unknown" {
					continue
				}
				nOK++
				if len(p.Events) != 1 {
					installed = false
				}
			}
			installed = installed && complete && len(fe.used) > 0 && nOK > 0
		}
		r.Check(installed, "R-2", "GovCtrler.Commit:installs", "Commit installs the handed-over parameters on every successful path", "GovCtrler.Commit does not install the handed-over parameters on every successful path (the running node keeps other parameters than the record a restart loads)", fnSite(w, gc))
	}
	gk := needFn(r, "R-2", w, fref{pkgCT, "GovParams", "Key"})
	if gk != nil {
		// one constant key on every path (that the constructor reads it is checked above)
		ok := w.govParamsKeyCanon() != "?"
		r.Check(ok, "R-2", "GovParams.Key", "the parameters are stored under the key the constructor reads", "GovParams.Key() is not the key NewGovCtrler reads", fnSite(w, gk))
	}
}

// govParamsKeyCanon: the one constant key GovParams.Key() returns on every path
// (helpers looked through), or "?" if there is no such key.
func (w *World) govParamsKeyCanon() string {
	gk := w.Method(pkgCT, "GovParams", "Key")
	if gk == nil || gk.Blocks == nil {
		return "?"
	}
	out := ""
	for _, b := range gk.Blocks {
		if ret, isR := lastInstr(b).(*ssa.Return); isR && b != gk.Recover && len(ret.Results) == 1 {
			c := w.CanonDeep(retResult(ret, 0))
			if out != "" && out != c {
				return "?"
			}
			out = c
		}
	}
	if out == "" || strings.Contains(out, "recv") {
		return "?"
	}
	return out
}

func mustRe(s string) *regexp.Regexp { return regexp.MustCompile(s) }

// codecSymmetric: enc reads every listed field of T and dec stores every listed field.
func (w *World) codecSymmetric(r *Report, rule, pkgRel, typ, enc, dec string, fields []string) {
	n := w.Named(pkgRel, typ)
	efd, einfo := w.declOf(pkgRel, typ, enc)
	df := w.Method(pkgRel, typ, dec)
	if n == nil || efd == nil || df == nil {
		r.Undecided(rule, typ+":codec", "codec functions not found")
		return
	}
	reads := fieldsSelectedIn(einfo, efd.Body, n)
	// the wire form may be built / consumed by helpers of the type
	w.addHelperFieldReads(w.Method(pkgRel, typ, enc), n, reads)
	stores := map[string]bool{}
	for _, g := range w.withModuleCallees(df, 3) {
		for _, fs := range w.fieldStores(g) {
			if fs.Owner != nil && fs.Owner.Obj() == n.Obj() {
				stores[fs.Field.Name()] = true
			}
		}
	}
	var miss []string
	for _, f := range fields {
		if !reads[f] {
			miss = append(miss, f+" not encoded")
		}
		if !stores[f] {
			miss = append(miss, f+" not decoded")
		}
	}
	r.Check(len(miss) == 0, rule, typ+":codec:"+enc+"/"+dec, fmt.Sprintf("all %d persisted fields are written by %s and restored by %s", len(fields), enc, dec), typ+" codec drops state: "+strings.Join(miss, ", "), w.Pos(efd.Pos()), fnSite(w, df))
	_ = ast.Inspect
}

// ---------------------------------------------------------------- C08

type durableStep struct {
	Name string
	In   ssa.Instruction
	Site string
}

// durableStepsOnPaths lists, in execution order, the durable writes of a commit:
// the function is evaluated on its paths with every callee that (transitively)
// writes durably expanded in line — helpers, closures, handlers taken from a
// literal table in a loop, methods of the interface value a helper was handed.
// A step is named by the store it writes (owner type + field path), computed in
// the frame the write sits in, so the names do not depend on how the commit is
// arranged. All successful paths must list the same steps in the same order
// (a conditional write makes the shorter list a subsequence of the longer).
func (w *World) durableStepsOnPaths(fn *ssa.Function) ([]durableStep, string) {
	ownerOf := func(f *ssa.Function) string {
		for f != nil && f.Parent() != nil {
			f = f.Parent()
		}
		if f == nil {
			return "?"
		}
		if f.Signature.Recv() != nil {
			if n, ok := deref(f.Signature.Recv().Type()).(*types.Named); ok {
				return n.Obj().Name()
			}
		} else if len(f.Params) > 0 {
			if n, ok := deref(f.Params[0].Type()).(*types.Named); ok {
				return n.Obj().Name()
			}
		}
		return "?"
	}
	ownFrame := func(f func() string) string {
		saved := w.inlineEnv
		w.inlineEnv = nil
		defer func() { w.inlineEnv = saved }()
		return f()
	}
	ident := func(in ssa.Instruction, rcv ssa.Value) string {
		// accessors of the owner's fields are looked through (the store keeps its name)
		s := ownFrame(func() string { return w.CanonDeep(rcv) })
		owner := ownerOf(in.Parent())
		if strings.HasPrefix(s, "recv.") {
			return owner + "." + strings.TrimPrefix(s, "recv.")
		}
		f := in.Parent()
		for f != nil && f.Parent() != nil {
			f = f.Parent()
		}
		// a store handed to a helper as a parameter keeps the name it has at the
		// helper's call sites (when they agree)
		if f != nil && len(s) > 2 && s[0] == 'p' && s[1] >= '0' && s[1] <= '9' && (s[2] == '.' || s[2] == '[') {
			k := int(s[1] - '0')
			if f.Signature.Recv() != nil {
				k++
			}
			if k < len(f.Params) {
				isCtrl := false
				if n, ok := deref(f.Params[k].Type()).(*types.Named); ok && q6Owners[n.Obj().Name()] {
					isCtrl = true
				}
				if !isCtrl {
					name := ""
					agree := true
					for _, cs := range w.nodeCallers(f) {
						if cs.Site == nil || cs.Site.Common().IsInvoke() || k >= len(cs.Site.Common().Args) {
							agree = false
							break
						}
						as := ownFrame(func() string { return w.CanonDeep(cs.Site.Common().Args[k]) })
						if !strings.HasPrefix(as, "recv.") {
							agree = false
							break
						}
						nm := ownerOf(cs.Caller) + "." + strings.TrimPrefix(as, "recv.") + s[2:]
						if name != "" && name != nm {
							agree = false
							break
						}
						name = nm
					}
					if agree && name != "" {
						return name
					}
				}
			}
		}
		if strings.HasPrefix(s, "p0.") && f != nil && f.Signature.Recv() == nil {
			return owner + "." + strings.TrimPrefix(s, "p0.")
		}
		return s
	}
	ev := func(in ssa.Instruction) string {
		c, ok := in.(ssa.CallInstruction)
		if !ok {
			return ""
		}
		if _, isDefer := c.(*ssa.Defer); isDefer {
			return ""
		}
		cc := c.Common()
		if api, ok := w.durableWrite(cc); ok {
			rcv, _ := callRecvArgs(cc)
			if cc.IsInvoke() {
				rcv = cc.Value
			}
			return "D\x01" + ident(in, rcv) + "." + api[strings.Index(api, ".")+1:] + "\x01" + site(w, c)
		}
		if inLedgerPkg(w, in.Parent()) {
			return ""
		}
		if arms := w.ledgerArms(c); arms != nil {
			for _, a := range arms {
				if a.Method == "Commit" {
					if k, _ := ownFrameKind(w, a.Recv); k == "live" {
						return "D\x01" + ident(in, ledgerRoot(a.Recv)) + ".Commit\x01" + site(w, c)
					}
				}
			}
			return ""
		}
		if rn := recvNamed(cc); rn != nil && rn.Obj().Name() == "MetaDB" && strings.HasPrefix(callName(cc), "Put") {
			rcv, _ := callRecvArgs(cc)
			return "D\x01" + ident(in, rcv) + "." + callName(cc) + "\x01" + site(w, c)
		}
		return ""
	}
	saved := w.branchMarkers
	w.branchMarkers = false
	w.enumDepth, w.psEvents, w.expandAll = 6, true, true
	paths, complete := w.enumPaths(fn, w.deadErrEval, ev, 6000)
	w.enumDepth, w.psEvents, w.expandAll = 0, false, false
	w.branchMarkers = saved
	if !complete {
		return nil, "path enumeration of the commit did not complete"
	}
	var best []string
	var all [][]string
	for _, p := range paths {
		if p.Term != "ok" && p.Term != "unknown" {
			continue
		}
		all = append(all, p.Events)
		if len(p.Events) > len(best) {
			best = p.Events
		}
	}
	if len(all) == 0 {
		return nil, "the commit has no successful path"
	}
	name := func(e string) string { return strings.SplitN(e, "\x01", 3)[1] }
	for _, evs := range all {
		j := 0
		for _, e := range evs {
			for j < len(best) && name(best[j]) != name(e) {
				j++
			}
			if j == len(best) {
				return nil, "the successful paths of the commit do not write the stores in one order"
			}
			j++
		}
	}
	var out []durableStep
	for _, e := range best {
		parts := strings.SplitN(e, "\x01", 3)
		out = append(out, durableStep{Name: parts[1], Site: parts[2]})
	}
	return out, ""
}

func ownFrameKind(w *World, v ssa.Value) (string, string) {
	saved := w.inlineEnv
	w.inlineEnv = nil
	defer func() { w.inlineEnv = saved }()
	return w.ledgerKind(v)
}

func checkC08(w *World, r *Report) {
	r.Explanation = "Structural clause of C08: (K-1) the durable writes reachable from RigoApp.Commit are enumerated in execution order; the record that Info reads back (PutLastBlockContext) is written after all four controllers' commits and after the version-equality test, and nothing but the legacy height record follows it — so a crash before it leaves Info reporting the previous block; (K-2) divergence is detected: the version-equality tests in the application, governance and stake commits panic / fail before the meta record is written, RigoApp.BeginBlock and EVMCtrler.BeginBlock test height continuity before any effect, and Info reports what the meta store holds; (K-3) some function on the start-up path must bring every store back to the persisted height (version rollback / overwrite, or a comparison of store versions with the meta height) — absent on this tree, recorded as one known finding per gap between consecutive durable writes of a commit; (K-4) what Commit writes is what a restarted node reads: the last-block record is written and read as one type whose MarshalJSON/UnmarshalJSON use identical wire structs and map every wire field from/to the same record field, every encoding/json decode target in the state packages is decodable by encoding/json (no non-empty interface / chan / func component outside a type with its own unmarshaller), and Info reports the record's height and app hash; (K-6) every return of InitChain has initialised the three ledgers, whatever the meta store already holds: the chain-id record is durable at once, the genesis state only with the first Commit, and a node killed in between is sent InitChain again; (K-5) the crash point just after a commit is a restart at a block boundary: every controller field written during block execution is block-scoped, rebuilt from durable state at start-up or handed over, and every record start-up reads is written by every commit with the value kept in memory (C07 R-1, R-2); what only the overlay cache holds is lost by the crash, so an item changed in place is marked and tested nil-ness survives the store (C07 R-3, R-4). K-1 also closes the readers of the legacy height / app-hash records: only Info's start-up fall-back (they are written after the block context record, by separate writes, and may lag one block after a crash)."
	r.NotCovered = "that a replay after realignment reproduces the hashes; torn writes inside one store (LevelDB / iavl); unchecked write errors of the meta store (errcheck cross-reference)."
	cm := needFn(r, "K-1", w, fref{"node", "RigoApp", "Commit"})
	if cm == nil {
		return
	}
	steps, stepsWhy := w.durableStepsOnPaths(cm)
	if steps == nil {
		r.Undecided("K-1", "durable-writes", "the durable writes of RigoApp.Commit cannot be put in order: "+stepsWhy)
		return
	}
	var names []string
	for _, s := range steps {
		names = append(names, s.Name)
	}
	r.Extra["k1_durable_writes_in_order"] = names
	if len(steps) < 10 {
		r.Undecided("K-1", "durable-writes", fmt.Sprintf("only %d durable writes found under RigoApp.Commit (floor 10): %v", len(steps), names))
		return
	}
	// position of the commit point
	idx := -1
	nCP := 0
	for i, s := range steps {
		if strings.HasSuffix(s.Name, ".PutLastBlockContext") {
			idx = i
			nCP++
		}
	}
	if nCP > 1 {
		r.Violate("K-1", "commit-point-once", fmt.Sprintf("the last-block record is written %d times during one commit: the first write makes Info report the new height before the remaining stores are committed", nCP), nil, fnSite(w, cm))
	}
	if idx < 0 {
		r.Violate("K-1", "commit-point", "RigoApp.Commit never writes the last-block record that Info reports", nil, fnSite(w, cm))
	} else {
		after := names[idx+1:]
		ok := true
		for _, a := range after {
			if !strings.HasSuffix(a, ".PutLastBlockHeight") {
				ok = false
			}
		}
		r.Check(ok, "K-1", "commit-point-last", fmt.Sprintf("the last-block record is durable write #%d of %d; only the legacy height record follows", idx+1, len(steps)), "durable writes follow the last-block record: a crash between them leaves Info reporting a height whose stores are incomplete (a silent fork instead of a replay): "+strings.Join(after, ", "), steps[idx].Site)
		// all four controller commits dominate it
		// (the stores of each controller are written before it, in the order gov, account, stake, vm)
		first := map[string]int{}
		last := map[string]int{}
		for i, st := range steps[:idx] {
			o := st.Name[:strings.Index(st.Name+".", ".")]
			if _, seen := first[o]; !seen {
				first[o] = i
			}
			last[o] = i
		}
		order := []struct{ ct, owner string }{{"recv.govCtrler.Commit()", "GovCtrler"}, {"recv.acctCtrler.Commit()", "AcctCtrler"}, {"recv.stakeCtrler.Commit()", "StakeCtrler"}, {"recv.vmCtrler.Commit()", "EVMCtrler"}}
		for k, oc := range order {
			_, has := first[oc.owner]
			ok := has
			if ok && k > 0 {
				if _, hp := last[order[k-1].owner]; hp && last[order[k-1].owner] > first[oc.owner] {
					ok = false
				}
			}
			r.Check(ok, "K-1", "commit-point-after:"+oc.ct, "the controller's stores are written before the last-block record, after those of the controller before it", oc.ct+" does not precede the last-block record (or the controllers' stores are written in another order)", steps[idx].Site)
		}
	}
	// K-2 detection
	// under "the versions returned by two controllers differ" no path may reach the
	// commit point; the pairs for which that holds must connect all four controllers
	cpEvent := func(in ssa.Instruction) string {
		if c, ok := in.(ssa.CallInstruction); ok && callName(c.Common()) == "PutLastBlockContext" {
			return "CP"
		}
		return ""
	}
	ctrlers := []string{"govCtrler", "acctCtrler", "stakeCtrler", "vmCtrler"}
	parent := map[string]string{}
	var find func(x string) string
	find = func(x string) string {
		if parent[x] == "" || parent[x] == x {
			parent[x] = x
			return x
		}
		parent[x] = find(parent[x])
		return parent[x]
	}
	nVer := 0
	for a := 0; a < len(ctrlers); a++ {
		for b := a + 1; b < len(ctrlers); b++ {
			f := AR(`\.`+ctrlers[a]+`\.Commit\(\)#1$`, "!=", `\.`+ctrlers[b]+`\.Commit\(\)#1$`)
			fe := w.newFactEval(nil, f)
			saved := w.branchMarkers
			w.branchMarkers = false
			w.expandPanics, w.psEvents = true, true
			paths, complete := w.enumPaths(cm, fe.eval, cpEvent, 4000)
			w.expandPanics, w.psEvents = false, false
			w.branchMarkers = saved
			if os.Getenv("RIGOCHECK_DEBUG") == "k2" {
				fmt.Println("DBG k2", ctrlers[a], ctrlers[b], "complete", complete, "used", len(fe.used), "paths", len(paths))
				for _, p := range paths {
					fmt.Println("   ", p.Term, p.Events)
				}
			}
			reachesCP := !complete || len(fe.used) == 0
			for _, p := range paths {
				for _, e := range p.Events {
					if e == "CP" {
						reachesCP = true
					}
				}
			}
			if !reachesCP {
				nVer++
				parent[find(ctrlers[a])] = find(ctrlers[b])
			}
		}
	}
	allLinked := nVer >= 3
	for _, c := range ctrlers[1:] {
		if find(c) != find(ctrlers[0]) {
			allLinked = false
		}
	}
	okProt := idx >= 0
	r.Check(allLinked && okProt, "K-2", "RigoApp.Commit:version-equality", "unequal versions of the four controllers' stores panic before the last-block record is written", "RigoApp.Commit no longer refuses to record a block whose stores are at different versions", fnSite(w, cm))
	for _, ct := range []struct {
		ref     fref
		ledgers []string
	}{
		{fref{"ctrlers/gov", "GovCtrler", "Commit"}, []string{"paramsLedger", "proposalLedger", "frozenLedger"}},
		{fref{pkgStake, "StakeCtrler", "Commit"}, []string{"delegateeLedger", "frozenLedger", "rewardLedger"}},
	} {
		fn := needFn(r, "K-2", w, ct.ref)
		if fn == nil {
			continue
		}
		// under "two of its ledgers report different versions" the commit has no
		// successful path; the pairs for which that holds must connect all ledgers
		par := map[string]string{}
		var fnd func(x string) string
		fnd = func(x string) string {
			if par[x] == "" || par[x] == x {
				par[x] = x
				return x
			}
			par[x] = fnd(par[x])
			return par[x]
		}
		n := 0
		for a := 0; a < len(ct.ledgers); a++ {
			for b := a + 1; b < len(ct.ledgers); b++ {
				f := AR(`\.`+ct.ledgers[a]+`\.Commit\(\)#1$`, "!=", `\.`+ct.ledgers[b]+`\.Commit\(\)#1$`)
				ok, why := w.failsUnder(fn, nil, f)
				if os.Getenv("RIGOCHECK_DEBUG") == "k2" {
					fmt.Println("DBG k2", refStr(ct.ref), ct.ledgers[a], ct.ledgers[b], ok, why)
				}
				if ok {
					n++
					par[fnd(ct.ledgers[a])] = fnd(ct.ledgers[b])
				}
			}
		}
		linked := n >= len(ct.ledgers)-1
		for _, l := range ct.ledgers[1:] {
			if fnd(l) != fnd(ct.ledgers[0]) {
				linked = false
			}
		}
		r.Check(linked, "K-2", refStr(ct.ref)+":version-equality", "unequal ledger versions fail the commit", refStr(ct.ref)+" no longer compares the versions of its ledgers", fnSite(w, fn))
	}
	// K-1 (single source of truth): what a restarted node resumes from is the block
	// context record alone. The legacy height / app-hash records are written after
	// it, one by one, so a crash can leave them one block behind: they are read by
	// Info's backward-compatibility fall-back and by nothing on the block path — a
	// check against them in BeginBlock..Commit stops a node that crashed between
	// the two writes for good, on every replay.
	for _, legacy := range []string{"LastBlockHeight", "LastBlockAppHash"} {
		w.checkCallers(r, "K-1", fref{pkgCT, "MetaDB", legacy}, map[string]string{"node.(*RigoApp).Info": "start-up fall-back for stores written by older releases"}, 0)
	}
	// K-6: the genesis state is durable only with the first Commit, while InitChain's
	// chain-id record is written at once. A node killed in between reports height 0
	// and is sent InitChain again: the replay reproduces block 1 only if InitChain
	// initialises the three ledgers whatever the meta store already holds — every
	// return of InitChain has passed the three InitLedger calls.
	if ic := needFn(r, "K-6", w, fref{"node", "RigoApp", "InitChain"}); ic != nil {
		ev := func(in ssa.Instruction) string {
			c, ok := in.(ssa.CallInstruction)
			if !ok || callName(c.Common()) != "InitLedger" {
				return ""
			}
			rcv, _ := callRecvArgs(c.Common())
			if c.Common().IsInvoke() {
				rcv = c.Common().Value
			}
			if rcv == nil {
				return ""
			}
			return w.Canon(rcv)
		}
		saved := w.branchMarkers
		w.branchMarkers = false
		w.enumDepth = 3
		ps, complete := w.enumPaths(ic, func(ssa.Value) (bool, bool) { return false, false }, ev, 4000)
		w.enumDepth = 0
		w.branchMarkers = saved
		bad, nRet := "", 0
		if !complete {
			bad = "path enumeration incomplete"
		}
		for _, p := range ps {
			if p.Term == "panic" || p.Term == "loop" {
				continue
			}
			nRet++
			got := map[string]int{}
			for _, e := range p.Events {
				got[e]++
			}
			for _, want := range []string{"recv.govCtrler", "recv.acctCtrler", "recv.stakeCtrler"} {
				if got[want] != 1 {
					bad = fmt.Sprintf("a return of InitChain has passed %s.InitLedger %d time(s)", want, got[want])
				}
			}
		}
		r.Check(bad == "" && nRet > 0, "K-6", "InitChain:initialises-unconditionally", "every return of InitChain has initialised the governance, account and stake ledgers exactly once", "InitChain can return without initialising a ledger (a node killed before the first Commit is sent InitChain again and must rebuild the genesis state): "+bad, fnSite(w, ic))
	}
	bb := needFn(r, "K-2", w, fref{"node", "RigoApp", "BeginBlock"})
	if bb != nil {
		want := symCmp("p0.Header.Height", "!=", "(recv.lastBlockCtx.Height() + 1)")
		gs := w.FindGuards(bb, func(c string) bool { return c == want })
		ok := len(gs) == 1
		if ok {
			for _, e := range w.csEffects(bb) {
				if !gs[0].Protects(e.In.Block()) {
					ok = false
				}
			}
			for _, c := range CallsIn(bb) {
				if callName(c.Common()) == "BeginBlock" && !gs[0].Protects(c.Block()) {
					ok = false
				}
			}
		}
		r.Check(ok, "K-2", "RigoApp.BeginBlock:height-continuity", "a block that is not lastHeight+1 is refused before any effect", "RigoApp.BeginBlock no longer refuses a block whose height is not the persisted height + 1", fnSite(w, bb))
	}
	eb := needFn(r, "K-2", w, fref{"ctrlers/vm/evm", "EVMCtrler", "BeginBlock"})
	if eb != nil {
		g, ok := w.guardProtectsSuccess(eb, func(c string) bool {
			return c == "((recv.lastBlockHeight + 1) != p0.Height())" || c == "(p0.Height() != (recv.lastBlockHeight + 1))"
		})
		r.Check(g != nil && ok, "K-2", "EVMCtrler.BeginBlock:height-continuity", "the EVM store refuses a block that is not its height + 1", "EVMCtrler.BeginBlock no longer checks height continuity", fnSite(w, eb))
	}
	// K-3 realignment
	var roots []*ssa.Function
	if f := w.Func("node", "NewRigoApp"); f != nil {
		roots = append(roots, f)
	}
	if f := w.appMethod("Info"); f != nil {
		roots = append(roots, f)
	}
	reach := w.ReachFrom(roots, nil)
	realign := ""
	for _, fn := range reach.ModuleFuncs() {
		for _, c := range CallsIn(fn) {
			obj := calleeObj(c.Common())
			if obj == nil {
				continue
			}
			switch obj.Name() {
			case "LoadVersionForOverwriting", "DeleteVersion", "DeleteVersions", "DeleteVersionsRange", "Rollback", "LoadVersion":
				if obj.Pkg() != nil && obj.Pkg().Path() == "github.com/cosmos/iavl" {
					realign = w.FName(fn) + "@" + site(w, c)
				}
			}
		}
	}
	r.Extra["k3_startup_functions"] = len(reach.ModuleFuncs())
	if realign != "" {
		r.OK("K-3", "realignment", "a start-up function realigns store versions: "+realign, realign)
	} else {
		for i := 0; i+1 < len(steps); i++ {
			key := "gap:" + steps[i].Name + "->" + steps[i+1].Name
			if strings.HasSuffix(steps[i].Name, ".PutLastBlockContext") {
				// after the commit point the block is committed; the legacy record is not read when the context exists
				r.OK("K-3", key, "after the last-block record the block counts as committed; the legacy height record is only read when no context record exists", steps[i].Site)
				continue
			}
			r.Violate("K-3", key, "a crash between these two durable writes leaves the first store one version ahead of the meta record and nothing on the start-up path (NewRigoApp, Info) rolls it back or detects it: replay of the interrupted block stops in the version-equality panic / height check", nil, steps[i].Site, steps[i+1].Site)
		}
	}
	r.Floor("K-1", 5, "commit point")
	r.Floor("K-2", 5, "detection")
	r.Floor("K-3", 10, "gaps between durable writes")
	k4(w, r)
	r.Floor("K-4", 10, "record round trip")
	// K-5: a crash right after a completed commit is a restart at a block boundary:
	// whatever block execution keeps in memory must be rebuilt from what the commit
	// made durable, and each record a restart reads must be written by every commit
	// (C07 R-1, R-2)
	x := NewExecCtx(w)
	if r.importRules(w, func(t *Report) { r1(w, t, x); r2(w, t); startupLag(w, t, "R-1") }, "K-5", "R-1", "R-2") < 20 {
		r.Undecided("K-5", "restart", "the restart rules (C07 R-1, R-2) matched fewer than 20 constructs")
	}
	// … and what only the overlay cache holds is lost by the crash: an item changed in
	// place must have been marked (C07 R-3 = C01 D-6), and nil-ness that execution
	// tests must survive the store (C07 R-4)
	fns := consFuncs(x)
	if r.importRules(w, func(t *Report) {
		t2 := NewReport(t.Prop, t.Tier)
		d6(w, t2, x, fns)
		d6b(w, t2)
		d6c(w, t2, x, fns)
		d6d(w, t2, fns)
		for _, o := range t2.Obs {
			if o.Rule == "D-6" {
				o.Rule = "R-3"
				o.Key = "R-3:" + strings.TrimPrefix(o.Key, "D-6:")
				t.Obs = append(t.Obs, o)
			}
		}
		r4(w, t, fns)
	}, "K-5", "R-3", "R-4") < 8 {
		r.Undecided("K-5", "write-back", "the write-back rules (C07 R-3, R-4) matched fewer than 8 constructs")
	}
}

// startupLag: after block N consensus holds the selection made from the state
// committed by block N-1. Whatever start-up assigns to lastValidators must
// therefore not be computed from the ledger's live view, which is the state of
// block N: the first diff would be computed against a set never announced.
func startupLag(w *World, r *Report, rule string) {
	// U-4 (lag): after block N consensus holds the selection made from the state
	// committed by block N-1. Whatever start-up assigns to lastValidators must
	// therefore not be computed from the ledger's live view, which is the state
	// of block N: the first diff would be computed against a set never announced.
	if ctor := w.Func(pkgStake, "NewStakeCtrler"); ctor == nil {
		r.Undecided(rule, "startup-selection-lag", "NewStakeCtrler not found")
	} else {
		reach := w.ReachFrom([]*ssa.Function{ctor}, nil)
		p := &provCtx{w: w, funcs: reach.ModuleFuncs(), visitF: map[string]bool{}, memo: map[string]provenance{}, witness: map[string]string{}, src: w.isLiveLedgerRead}
		nf := 0
		for _, f := range p.funcs {
			for _, fs := range w.fieldStores(f) {
				if fs.Owner != nil && fs.Owner.Obj().Name() == "StakeCtrler" && fs.Field.Name() == "lastValidators" {
					nf++
				}
			}
		}
		live := p.fieldProv("StakeCtrler", "lastValidators", 0) == provPersist
		r.Check(!live, rule, "startup-selection-lag", fmt.Sprintf("on the start-up path (%d functions, %d stores to lastValidators) the set the first diff is computed against is not derived from the live view of a ledger", len(p.funcs), nf), "at start-up lastValidators is computed from the live view of the delegatee ledger, i.e. from the state of the LAST block, but consensus was last told the selection of the block before: the changes of the last block before a restart are never announced", fnSite(w, ctor))
	}
}

// ---------------------------------------------------------------- C10

func checkC10(w *World, r *Report) {
	r.Explanation = "Structural clause of C10: (U-1) the candidate list is rebuilt in BeginBlock from the committed delegatee tree, filtered by SelfPower >= AmountToPower(MinValidatorStake()), sorted with PowerOrderDelegatees (a total order: power, stake count, address), and truncated to min(len, MaxValidatorCnt()); (U-2) validatorUpdates is a merge-diff whose behaviour depends only on sign(compare(existing[i].Addr, newers[j].Addr)) and on TotalPower inequality: per branch the emitted (public key, power) and the index increments are compared with the decision table, both inputs are sorted with AddressOrderDelegatees (whose direction agrees with the merge) immediately before the call; (U-3) the new selection becomes lastValidators after the diff and the diff is what EndBlock returns to consensus; (U-4) the set the diff is computed against must survive a restart (C07 R-1); (U-5) a deleted delegatee record is not written back on the same path; (U-6) an object of the candidate list (decoded from the committed tree) does not become the delegatee overlay's working object (C01 D-6 stale-copy). (U-7) the iterator the candidates are rebuilt with reads the tree alone (C18 L-2). U-8 also requires that Delegatee.Decode and Stake.Decode have no failing path once the library's Unmarshal succeeded."
	r.NotCovered = "the fold of updates over a history; Tendermint's acceptance rules; negative powers (TotalPower is non-negative by C11)."
	u1(w, r)
	u2(w, r)
	u3(w, r)
	// U-4
	x := NewExecCtx(w)
	rep := NewReport("C10", "quick")
	r1(w, rep, x)
	n := 0
	for _, o := range rep.Obs {
		if strings.Contains(o.Key, "StakeCtrler.lastValidators") || strings.Contains(o.Key, "StakeCtrler.allDelegatees") {
			o.Rule = "U-4"
			o.Key = "U-4:" + strings.TrimPrefix(o.Key, "R-1:")
			r.Obs = append(r.Obs, o)
			n++
		}
	}
	if n < 2 {
		r.Undecided("U-4", "fields", "lastValidators / allDelegatees not found among the fields written during block execution")
	}
	startupLag(w, r, "U-4")
	// U-5: a validator that was removed (all stake moved out, record deleted) is gone from
	// the candidates of the following blocks: its record is not written back after the deletion
	importNoResurrect(w, r, "U-5")
	// U-6: the candidates of a block are the records the previous block committed
	// (that is the one-block lag): an object of that list must not become the
	// overlay's working object, or transactions of the block change what EndBlock
	// selects from (C01 D-6 stale-copy: a copy decoded from the committed tree is not
	// written into the overlay)
	{
		tmp := NewReport(r.Prop, r.Tier)
		d6c(w, tmp, x, consFuncs(x))
		n := 0
		for _, o := range tmp.Obs {
			if strings.HasPrefix(o.Key, "D-6:stale-copy:") && strings.Contains(o.Key, "delegateeLedger") {
				o.Rule = "U-6"
				o.Key = "U-6:" + strings.TrimPrefix(o.Key, "D-6:")
				r.Obs = append(r.Obs, o)
				n++
			}
		}
		if n < 2 {
			r.Undecided("U-6", "overlay-writes", "fewer than 2 writes to the delegatee ledger's overlay found in consensus context")
		}
	}
	// U-8: the candidate list is rebuilt by decoding every committed delegatee record;
	// one record that its own decoder cannot read stops the scan (the error is not
	// fatal to the block) and cuts the list. The record is written and read by one
	// and the same JSON library: encoders of different libraries agree on most
	// values and differ on some (untagged int64 lists)
	for _, tn := range []string{"Delegatee", "Stake"} {
		enc, dec := w.codecLibOf(pkgStake, tn, "Encode", "Marshal"), w.codecLibOf(pkgStake, tn, "Decode", "Unmarshal")
		r.Check(enc != "" && enc == dec, "U-8", "codec-pair:"+tn, "written and read by the same library ("+enc+")", fmt.Sprintf("%s records are written with %q and read with %q: a value the two treat differently makes the committed record unreadable", tn, enc, dec), "ctrlers/stake")
	}
	// ... and the decoder refuses nothing the library accepts: with the library's
	// decoding successful, Decode has no failing path. Every shape a commit can write
	// (a delegatee slashed down to no stake and power 0 is one) must be readable, or
	// the scan stops at that record and the validators behind it are dropped.
	for _, tn := range []string{"Delegatee", "Stake"} {
		dfn := needFn(r, "U-8", w, fref{pkgStake, tn, "Decode"})
		if dfn == nil {
			continue
		}
		o := w.runUnder(dfn, nil, nil, AR(`\.Unmarshal\(.*\)$`, "==", `^nil$`))
		good := o.complete && o.allConsulted && o.ok > 0 && o.err == 0
		r.Check(good, "U-8", "decoder-accepts-what-the-library-accepts:"+tn, "when the library decodes the bytes, Decode succeeds: no further rejection", fmt.Sprintf("%s.Decode can fail although the library decoded the record (%d failing path(s)): a record that a commit legitimately wrote becomes unreadable, the scan of the committed tree stops there and every candidate behind it is lost", tn, o.err), fnSite(w, dfn))
	}
	// U-7: "rebuilt from the committed delegatee tree" holds only if the tree's
	// iterator reads the tree alone: an iterator that also consults an overlay (the
	// CheckTx overlay is fed by the mempool) makes the candidates node-local (C18 L-2)
	if r.importTreeReadOnly(w, "U-7") < 2 {
		r.Undecided("U-7", "tree-iterators", "the committed-tree readers of the ledger package were not found")
	}
	r.Floor("U-1", 5, "selection")
	r.Floor("U-2", 9, "merge-diff decision table")
	r.Floor("U-3", 3, "hand-over to consensus")
	r.Floor("U-4", 2, "restart")
}

func u1(w *World, r *Report) {
	bb := needFn(r, "U-1", w, fref{pkgStake, "StakeCtrler", "BeginBlock"})
	var cl *ssa.Function
	var localList *ssa.FreeVar // the callback's name of a list local to the rebuilding function
	if bb != nil {
		// the code that rebuilds the candidates may sit in BeginBlock or in a helper it
		// calls unconditionally: locate the scan of the committed delegatee tree
		isScan := func(s string) bool {
			return strings.HasPrefix(s, "recv.delegateeLedger.IterateReadAllFinalityItems(closure(")
		}
		host, it, siteInBB := w.hostOfCall(bb, isScan, 0)
		ok := host != nil
		if ok {
			reset := false
			for _, st := range w.storesTo(host, "recv.allDelegatees") {
				if c, isC := st.Val.(*ssa.Const); isC && c.IsNil() && instrDominates(st, it) {
					reset = true
				}
			}
			var srt ssa.CallInstruction
			for _, c := range w.callsTo(host, fref{"sort", "", "Sort"}) {
				if w.sortArgType(c) == "PowerOrderDelegatees" && w.Canon(c.Common().Args[0]) == "recv.allDelegatees" {
					srt = c
				}
			}
			// the rebuild runs on every path through BeginBlock before anything else uses the list
			uncond := siteInBB != nil && siteInBB.Block() == bb.Blocks[0]
			if host == bb {
				uncond = it.Block() == bb.Blocks[0] || it.Block().Dominates(bb.Blocks[len(bb.Blocks)-1])
				for _, b := range bb.Blocks {
					if _, isR := lastInstr(b).(*ssa.Return); isR && b != bb.Recover && !it.Block().Dominates(b) {
						uncond = false
					}
				}
			}
			ok = reset && srt != nil && instrDominates(it, srt) && uncond
			var mc *ssa.MakeClosure
			if len(it.Common().Args) > 0 {
				if m, isMC := it.Common().Args[len(it.Common().Args)-1].(*ssa.MakeClosure); isMC {
					mc = m
					cl, _ = mc.Fn.(*ssa.Function)
				}
			}
			if !ok && uncond && mc != nil && cl != nil {
				// the same rebuild through a list of the helper's own: a fresh (nil) local
				// that only the scan's callback fills, sorted by power and then published as
				// the candidate list
				for i, bnd := range mc.Bindings {
					al, isA := bnd.(*ssa.Alloc)
					if !isA || i >= len(cl.FreeVars) {
						continue
					}
					written := false
					for _, b := range host.Blocks {
						for _, in := range b.Instrs {
							if st, isS := in.(*ssa.Store); isS && st.Addr == ssa.Value(al) {
								written = true
							}
						}
					}
					var pub *ssa.Store
					for _, st := range w.storesTo(host, "recv.allDelegatees") {
						if ld, isLd := st.Val.(*ssa.UnOp); isLd && ld.Op == token.MUL && ld.X == ssa.Value(al) && instrDominates(it, st) {
							pub = st
						}
					}
					var srt2 ssa.CallInstruction
					for _, c := range w.callsTo(host, fref{"sort", "", "Sort"}) {
						if w.sortArgType(c) != "PowerOrderDelegatees" || !instrDominates(it, c) {
							continue
						}
						// sorted under its own name, or under the field once published (same array)
						if a := w.Canon(c.Common().Args[0]); a == w.Canon(al) || (a == "recv.allDelegatees" && pub != nil && instrDominates(pub, c)) {
							srt2 = c
						}
					}
					if !written && pub != nil && srt2 != nil && len(w.storesTo(host, "recv.allDelegatees")) == 1 {
						ok = true
						localList = cl.FreeVars[i]
					}
				}
			}
		}
		r.Check(ok, "U-1", "BeginBlock:candidates", "the candidate list is emptied, refilled from the committed delegatee tree and sorted by power on every path through BeginBlock", "BeginBlock does not rebuild the candidate list from the committed tree and sort it with PowerOrderDelegatees", fnSite(w, bb))
	}
	if cl == nil {
		r.Undecided("U-1", "BeginBlock$1", "candidate filter not found")
	} else {
		list := "recv.allDelegatees"
		if localList != nil {
			list = w.Canon(localList)
		}
		st := w.findStore(cl, list, "append("+list+", [p0])")
		ok := st != nil && w.condCanonHolds(st.Block(), "(p0.SelfPower >= types.AmountToPower(recv.govParams.MinValidatorStake()))", 1) && len(w.storesTo(cl, list)) == 1
		r.Check(ok, "U-1", "BeginBlock:eligibility", "a delegatee is a candidate iff its own stake meets the minimum validator stake", "the eligibility filter is not `SelfPower >= AmountToPower(MinValidatorStake())`", fnSite(w, cl))
	}
	sv := needFn(r, "U-1", w, fref{pkgStake, "", "selectValidators"})
	if sv != nil {
		ok := false
		for _, b := range sv.Blocks {
			if ret, isR := lastInstr(b).(*ssa.Return); isR {
				c := w.Canon(ret.Results[0])
				ok = c == "p0[:libs.MIN(len(p0), p1)]" || c == "p0[:libs.MIN(p1, len(p0))]"
				if sl, isSl := stripConv(ret.Results[0]).(*ssa.Slice); !ok && isSl && sl.Low == nil && sl.Max == nil && sl.High != nil && w.Canon(sl.X) == "p0" {
					ok = w.isMinOf(sl.High, "len(p0)", "p1")
				}
			}
		}
		r.Check(ok, "U-1", "selectValidators:top-n", "the first min(len, maxVals) of the power-sorted candidates", "selectValidators is not the first min(len, maxVals) candidates", fnSite(w, sv))
	}
	uv := needFn(r, "U-1", w, fref{pkgStake, "StakeCtrler", "updateValidators"})
	if uv != nil {
		c := w.findCall(uv, "stake.selectValidators(recv.allDelegatees, p0)")
		r.Check(c != nil, "U-1", "updateValidators:selects-from-candidates", "the new set is selected from this block's candidates", "the new validator set is not selected from the candidates built in BeginBlock", fnSite(w, uv))
	}
	eb := needFn(r, "U-1", w, fref{pkgStake, "StakeCtrler", "EndBlock"})
	if eb != nil {
		c := w.findCall(eb, "recv.updateValidators(int(p0.GovHandler.MaxValidatorCnt()))")
		r.Check(c != nil, "U-1", "EndBlock:max-validators", "the truncation uses the governance validator limit", "EndBlock does not select with the governance MaxValidatorCnt()", fnSite(w, eb))
	}
	w.checkLess(r, "U-1", "PowerOrderDelegatees", []string{"#.TotalPower", "len(#.Stakes)", "#.Addr"}, []int{-1, -1, -1})
}

// sortArgType: the named type of the value handed to sort.Sort.
func (w *World) sortArgType(c ssa.CallInstruction) string {
	if len(c.Common().Args) == 0 {
		return ""
	}
	v := c.Common().Args[0]
	if mi, ok := v.(*ssa.MakeInterface); ok {
		if n, ok := mi.X.Type().(*types.Named); ok {
			return n.Obj().Name()
		}
	}
	return ""
}

// checkLess: the comparator is a lexicographic chain over the listed keys, each
// decided strictly, ending in a full-width address comparison.
func (w *World) checkLess(r *Report, rule, typ string, keys []string, dirs []int) {
	fn := needFn(r, rule, w, fref{pkgStake, typ, "Less"})
	if fn == nil {
		return
	}
	t := w.comparatorTable(fn)
	ok, why := t.matchesLexicographic(keys, dirs)
	if ok {
		if tot, w2 := t.strictTotalOrder(); !tot {
			ok, why = false, w2
		}
	}
	r.Check(ok, rule, typ+".Less:total-order", fmt.Sprintf("evaluated on all %d assignments of (<,=,>) to %v: the lexicographic order the selection assumes, ending in the unique address, so no ties are left to the sort algorithm", len(t.Rows), t.Keys), typ+".Less is not the expected total order: "+why, fnSite(w, fn))
}

func u2(w *World, r *Report) {
	fn := needFn(r, "U-2", w, fref{pkgStake, "", "validatorUpdates"})
	if fn == nil {
		return
	}
	// the comparison that drives the merge
	var cmp *ssa.Call
	for _, c := range w.callsTo(fn, fref{"bytes", "", "Compare"}, fref{"types/bytes", "", "Compare"}) {
		cmp, _ = c.(*ssa.Call)
	}
	if cmp == nil {
		r.Undecided("U-2", "merge:compare", "no address comparison found in validatorUpdates", fnSite(w, fn))
		return
	}
	idxOf := func(v ssa.Value) (param int, idx ssa.Value, field string) {
		// v = load(FieldAddr(load(IndexAddr(param, idx)), field))
		v = stripConv(v)
		u, ok := v.(*ssa.UnOp)
		if !ok {
			return -1, nil, ""
		}
		fa, ok := u.X.(*ssa.FieldAddr)
		if !ok {
			return -1, nil, ""
		}
		u2, ok := fa.X.(*ssa.UnOp)
		if !ok {
			return -1, nil, ""
		}
		ia, ok := u2.X.(*ssa.IndexAddr)
		if !ok {
			return -1, nil, ""
		}
		p, ok := ia.X.(*ssa.Parameter)
		if !ok {
			return -1, nil, ""
		}
		pi, _ := paramIndex(p)
		return pi, ia.Index, fieldName(fa.X.Type(), fa.Field)
	}
	p0, iv, f0 := idxOf(cmp.Common().Args[0])
	p1, jv, f1 := idxOf(cmp.Common().Args[1])
	if p0 != 0 || p1 != 1 || f0 != "Addr" || f1 != "Addr" {
		r.Violate("U-2", "merge:compare", "the merge does not compare existing[i].Addr with newers[j].Addr: "+w.canonCall(cmp.Common(), 0), nil, site(w, cmp))
		return
	}
	iPhi, ok1 := iv.(*ssa.Phi)
	jPhi, ok2 := jv.(*ssa.Phi)
	if !ok1 || !ok2 || iPhi.Block() != jPhi.Block() {
		r.Undecided("U-2", "merge:indices", "loop indices of the merge not recognised", site(w, cmp))
		return
	}
	r.OK("U-2", "merge:compare", "the merge is driven by compare(existing[i].Addr, newers[j].Addr)", site(w, cmp))
	hdr := iPhi.Block()
	I, J := w.Canon(iv), w.Canon(jv)
	// One iteration of the merge is evaluated abstractly for each ordering of the
	// two addresses and for equal / different powers: which update is emitted
	// (helpers expanded) and which index advances. Independent of how the three
	// cases are written (if chain, switch, helpers).
	isCmpV := func(v ssa.Value) bool { return stripConv(v) == ssa.Value(cmp) }
	isZero := func(v ssa.Value) bool { k, ok := constInt(v); return ok && k == 0 }
	cmpInts := func(a int, op token.Token, b int) (bool, bool) {
		switch op {
		case token.LSS:
			return a < b, true
		case token.LEQ:
			return a <= b, true
		case token.GTR:
			return a > b, true
		case token.GEQ:
			return a >= b, true
		case token.EQL:
			return a == b, true
		case token.NEQ:
			return a != b, true
		}
		return false, false
	}
	isLenOfParam := func(v ssa.Value) bool {
		c, ok := v.(*ssa.Call)
		if !ok {
			return false
		}
		bi, ok := c.Common().Value.(*ssa.Builtin)
		if !ok || bi.Name() != "len" {
			return false
		}
		_, isP := c.Common().Args[0].(*ssa.Parameter)
		return isP
	}
	powI, powJ := "p0["+I+"].TotalPower", "p1["+J+"].TotalPower"
	evalFor := func(sgn int, diff bool) func(ssa.Value) (bool, bool) {
		return func(c ssa.Value) (bool, bool) {
			bo, ok := c.(*ssa.BinOp)
			if !ok {
				return false, false
			}
			switch {
			case isCmpV(bo.X) && isZero(bo.Y):
				return cmpInts(sgn, bo.Op, 0)
			case isZero(bo.X) && isCmpV(bo.Y):
				return cmpInts(0, bo.Op, sgn)
			case bo.Op == token.LSS && (bo.X == ssa.Value(iPhi) || bo.X == ssa.Value(jPhi)) && isLenOfParam(bo.Y):
				return true, true // inside the merge loop
			case bo.Op == token.GTR && (bo.Y == ssa.Value(iPhi) || bo.Y == ssa.Value(jPhi)) && isLenOfParam(bo.X):
				return true, true
			case bo.Op == token.EQL || bo.Op == token.NEQ:
				x, y := w.Canon(bo.X), w.Canon(bo.Y)
				if (x == powI && y == powJ) || (x == powJ && y == powI) {
					return diff == (bo.Op == token.NEQ), true
				}
			}
			return false, false
		}
	}
	remS := "types.UpdateValidator(p0[" + I + "].PubKey, 0, \"secp256k1\")"
	addS := "types.UpdateValidator(p1[" + J + "].PubKey, p1[" + J + "].TotalPower, \"secp256k1\")"
	uvRef := fref{"github.com/tendermint/tendermint/abci/types", "", "UpdateValidator"}
	emitEvent := func(in ssa.Instruction) string {
		c, ok := in.(*ssa.Call)
		if !ok || !w.callIs(c.Common(), uvRef) {
			return ""
		}
		switch s := w.canonCall(c.Common(), 0); s {
		case remS:
			return "rem"
		case addS:
			return "add"
		default:
			return "emit?" + s
		}
	}
	type iter struct {
		ev       string
		di, dj   string
		complete bool
	}
	adv := func(ph *ssa.Phi) string {
		if w.cur == nil {
			return "?"
		}
		v, ok := w.cur.st.phi[ph]
		switch {
		case !ok:
			return "?"
		case v == ssa.Value(ph):
			return "keep"
		case isIncOf(v, ph):
			return "inc"
		}
		return "other:" + w.Canon(v)
	}
	oneIteration := func(sgn int, diff bool) ([]iter, bool) {
		e := &enumerator{w: w, eval: evalFor(sgn, diff), event: emitEvent, max: 200, complete: true, evCache: map[ssa.Instruction]string{}, hasEv: map[*ssa.Function]int{}, pathSensitiveEvents: true, startBlock: hdr, stopBlock: hdr}
		var out []iter
		e.walkFn(fn, nil, 0, func(ev []string, ret *ssa.Return, term string) {
			if term != "back" {
				return // left the loop: not an iteration of the merge
			}
			out = append(out, iter{ev: strings.Join(ev, ","), di: adv(iPhi), dj: adv(jPhi)})
		})
		w.cur = nil
		return out, e.complete
	}
	type want struct{ ev, di, dj string }
	wantOf := func(br string, diff bool) want {
		switch br {
		case "lt":
			return want{"rem", "inc", "keep"}
		case "gt":
			return want{"add", "keep", "inc"}
		}
		if diff {
			return want{"add", "inc", "inc"}
		}
		return want{"", "inc", "inc"}
	}
	for _, br := range []struct {
		name string
		sgn  int
	}{{"lt", -1}, {"eq", 0}, {"gt", 1}} {
		advOK, emitOK := true, true
		n := 0
		detail := ""
		for _, diff := range []bool{true, false} {
			its, complete := oneIteration(br.sgn, diff)
			if !complete {
				r.Undecided("U-2", "merge:iteration:"+br.name, "the merge loop body has too many paths to evaluate", fnSite(w, fn))
				advOK, emitOK = false, false
				continue
			}
			wt := wantOf(br.name, diff)
			for _, it := range its {
				n++
				if it.di != wt.di || it.dj != wt.dj {
					advOK = false
					detail = fmt.Sprintf("i: %s, j: %s (want i: %s, j: %s)", it.di, it.dj, wt.di, wt.dj)
				}
				if it.ev != wt.ev {
					emitOK = false
					detail = fmt.Sprintf("emits [%s] (want [%s]) when powers differ=%v", it.ev, wt.ev, diff)
				}
			}
			if len(its) == 0 {
				advOK, emitOK = false, false
				detail = "no path of the loop body returns to the loop head under this ordering"
			}
		}
		what := map[string]string{"lt": "an existing validator missing from the new set is removed (its own key, power 0) and only i advances", "eq": "a validator in both sets is updated iff its total power changed (newer key, newer TotalPower) and both indices advance", "gt": "a validator only in the new set is added (its key, its TotalPower) and only j advances"}[br.name]
		r.Check(advOK, "U-2", "merge:advance:"+br.name, fmt.Sprintf("%s [%d path(s) of one iteration evaluated]", what, n), fmt.Sprintf("ordering %q advances the wrong index: %s", br.name, detail), fnSite(w, fn))
		r.Check(emitOK, "U-2", "merge:emit:"+br.name, what, fmt.Sprintf("ordering %q emits the wrong update: %s", br.name, detail), fnSite(w, fn))
	}
	// tails: one loop for each list (emission sites outside the merge loop; simple helpers expanded)
	tRem, tAdd := 0, 0
	reRem := mustRe(`^types\.UpdateValidator\(p0\[(.+)\]\.PubKey, 0, "secp256k1"\)$`)
	reAdd := mustRe(`^types\.UpdateValidator\(p1\[(.+)\]\.PubKey, p1\[(.+)\]\.TotalPower, "secp256k1"\)$`)
	classify := func(s string) {
		if !strings.HasPrefix(s, "types.UpdateValidator(") {
			return
		}
		if reRem.MatchString(s) {
			tRem++
		} else if m := reAdd.FindStringSubmatch(s); m != nil && m[1] == m[2] {
			tAdd++
		} else {
			tRem, tAdd = -10, -10
		}
	}
	for _, c := range CallsIn(fn) {
		if hdr.Dominates(c.Block()) && reachesBlock(c.Block(), hdr) {
			continue
		}
		// the emission may sit in a local closure called with the element
		if cal := c.Common().StaticCallee(); cal != nil && cal.Parent() == fn && cal.Blocks != nil && len(cal.Params) == len(c.Common().Args) {
			env := map[*ssa.Parameter]string{}
			for j, p := range cal.Params {
				env[p] = w.Canon(c.Common().Args[j])
			}
			w.inlineEnv = append(w.inlineEnv, env)
			for _, ic := range CallsIn(cal) {
				classify(w.canonCallI(ic.Common()))
			}
			w.inlineEnv = w.inlineEnv[:len(w.inlineEnv)-1]
			continue
		}
		classify(w.canonCallI(c.Common()))
	}
	r.Check(tRem == 1 && tAdd == 1, "U-2", "merge:tails", "the remaining existing validators are removed and the remaining new ones added", "the tails of the merge do not remove all remaining existing validators and add all remaining new ones", fnSite(w, fn))
	// both inputs sorted by address immediately before the call
	uv := needFn(r, "U-2", w, fref{pkgStake, "StakeCtrler", "updateValidators"})
	if uv != nil {
		cs := w.callsTo(uv, fref{pkgStake, "", "validatorUpdates"})
		ok := len(cs) == 1
		if ok {
			a := cs[0].Common().Args
			sorted := 0
			for _, s := range w.callsTo(uv, fref{"sort", "", "Sort"}) {
				if w.sortArgType(s) != "AddressOrderDelegatees" || !instrDominates(s, cs[0]) {
					continue
				}
				arg := w.Canon(s.Common().Args[0])
				if arg == w.Canon(a[0]) || arg == w.Canon(a[1]) {
					// nothing re-sorts it in between
					clean := true
					for _, s2 := range w.callsTo(uv, fref{"sort", "", "Sort"}) {
						if s2 != s && instrDominates(s, s2) && instrDominates(s2, cs[0]) && w.Canon(s2.Common().Args[0]) == arg {
							clean = false
						}
					}
					if clean {
						sorted++
					}
				}
			}
			ok = sorted == 2 && w.Canon(a[0]) == "recv.lastValidators" && w.Canon(a[1]) == "stake.selectValidators(recv.allDelegatees, p0)"
		}
		r.Check(ok, "U-2", "updateValidators:inputs-address-sorted", "the previous and the new set are both sorted by address right before the merge", "the merge-diff is not fed (lastValidators, new selection) both sorted with AddressOrderDelegatees", fnSite(w, uv))
	}
	// comparator direction agrees with the merge
	al := needFn(r, "U-2", w, fref{pkgStake, "AddressOrderDelegatees", "Less"})
	if al != nil {
		t := w.comparatorTable(al)
		ok, why := t.matchesLexicographic([]string{"#.Addr"}, []int{+1})
		r.Check(ok && t.Bytes["#.Addr"], "U-2", "AddressOrderDelegatees.Less:ascending", "ascending by address: the direction the merge assumes (`existing < newer` means existing comes first)", "AddressOrderDelegatees is not ascending by full address (the merge would emit spurious removals/additions): "+why, fnSite(w, al))
	}
}

func lastIfCond(w *World, b *ssa.BasicBlock) string {
	if ifi, ok := lastInstr(b).(*ssa.If); ok {
		return w.Canon(ifi.Cond)
	}
	return ""
}

func isIncOf(v ssa.Value, phi *ssa.Phi) bool {
	bo, ok := v.(*ssa.BinOp)
	if !ok || bo.Op != token.ADD {
		return false
	}
	k, isK := constInt(bo.Y)
	return isK && k == 1 && bo.X == ssa.Value(phi)
}

func reachesBlock(from, to *ssa.BasicBlock) bool {
	seen := map[*ssa.BasicBlock]bool{}
	q := []*ssa.BasicBlock{from}
	for len(q) > 0 {
		b := q[0]
		q = q[1:]
		if seen[b] {
			continue
		}
		seen[b] = true
		for _, s := range b.Succs {
			if s == to {
				return true
			}
			q = append(q, s)
		}
	}
	return false
}

func u3(w *World, r *Report) {
	uv := needFn(r, "U-3", w, fref{pkgStake, "StakeCtrler", "updateValidators"})
	if uv != nil {
		cs := w.callsTo(uv, fref{pkgStake, "", "validatorUpdates"})
		st := w.findStore(uv, "recv.lastValidators", "stake.selectValidators(recv.allDelegatees, p0)")
		ok := len(cs) == 1 && st != nil && instrDominates(cs[0], st)
		if ok {
			for _, b := range uv.Blocks {
				if ret, isR := lastInstr(b).(*ssa.Return); isR && b != uv.Recover {
					ok = ok && sameValue(retResult(ret, 0), callValue(cs[0])) && instrDominates(st, ret)
				}
			}
		}
		r.Check(ok, "U-3", "updateValidators:remember-new-set", "the new selection replaces lastValidators after the diff, and the diff is returned", "updateValidators does not return the diff and then remember the new selection", fnSite(w, uv))
	}
	eb := needFn(r, "U-3", w, fref{pkgStake, "StakeCtrler", "EndBlock"})
	if eb != nil {
		c := w.findCall(eb, "p0.SetValUpdates(recv.updateValidators(int(p0.GovHandler.MaxValidatorCnt())))")
		r.Check(c != nil, "U-3", "EndBlock:publishes-diff", "the diff is stored in the block context", "EndBlock does not publish the validator diff in the block context", fnSite(w, eb))
	}
	ae := needFn(r, "U-3", w, fref{"node", "RigoApp", "EndBlock"})
	if ae != nil {
		ok := false
		for _, fs := range w.fieldStores(ae) {
			if fs.Field.Name() == "ValidatorUpdates" && w.Canon(fs.Val) == "recv.nextBlockCtx.ValUpdates" {
				ok = true
			}
		}
		sc := w.endBlockCalls()["recv.stakeCtrler"] == 1
		r.Check(ok && sc, "U-3", "RigoApp.EndBlock:returns-diff", "ResponseEndBlock carries the block context's validator updates", "RigoApp.EndBlock does not return the updates computed by the stake controller", fnSite(w, ae))
	}
	sv := needFn(r, "U-3", w, fref{pkgCT, "BlockContext", "SetValUpdates"})
	if sv != nil {
		r.Check(w.findStore(sv, "recv.ValUpdates", "p0") != nil, "U-3", "SetValUpdates", "stores its argument", "SetValUpdates does not store its argument", fnSite(w, sv))
	}
}

// endBlockCalls: on every successful path of RigoApp.EndBlock, how often each
// controller's EndBlock runs on the executing block's context (the calls may be
// written out or made in a loop over a literal table of handlers). Returns, per
// controller field ("recv.stakeCtrler"), the number of such calls if all paths
// agree, -1 otherwise.
func (w *World) endBlockCalls() map[string]int {
	if w.endBlockMemo != nil {
		return w.endBlockMemo
	}
	out := map[string]int{}
	w.endBlockMemo = out
	ae := w.Method("node", "RigoApp", "EndBlock")
	if ae == nil {
		return out
	}
	ev := func(in ssa.Instruction) string {
		c, ok := in.(ssa.CallInstruction)
		if !ok || callName(c.Common()) != "EndBlock" {
			return ""
		}
		if _, isDefer := c.(*ssa.Defer); isDefer {
			return ""
		}
		rcv, args := callRecvArgs(c.Common())
		if c.Common().IsInvoke() {
			rcv, args = c.Common().Value, c.Common().Args
		}
		if rcv == nil || len(args) != 1 {
			return ""
		}
		return "EB\x01" + w.Canon(rcv) + "\x01" + w.Canon(args[0])
	}
	saved := w.branchMarkers
	w.branchMarkers = false
	w.psEvents = true
	paths, complete := w.enumPaths(ae, w.deadErrEval, ev, 4000)
	w.psEvents = false
	w.branchMarkers = saved
	if !complete {
		return out
	}
	first := true
	for _, p := range paths {
		if p.Term == "panic" || p.Term == "loop" || p.Term == "err" {
			continue
		}
		cnt := map[string]int{}
		for _, e := range p.Events {
			parts := strings.Split(e, "\x01")
			if len(parts) == 3 && parts[2] == "recv.nextBlockCtx" {
				cnt[parts[1]]++
			} else if len(parts) == 3 {
				cnt[parts[1]] = -100
			}
		}
		if first {
			for k, v := range cnt {
				out[k] = v
			}
			first = false
			continue
		}
		for k := range out {
			if cnt[k] != out[k] {
				out[k] = -1
			}
		}
		for k := range cnt {
			if _, ok := out[k]; !ok {
				out[k] = -1
			}
		}
	}
	return out
}

// codecLibOf: the package of the (un)marshalling function the item's codec method
// reaches (through helpers of the package, two levels); "" if none or several.
func (w *World) codecLibOf(pkgRel, typ, method, fname string) string {
	m := w.Method(pkgRel, typ, method)
	if m == nil {
		return ""
	}
	libs := map[string]bool{}
	for _, hf := range w.withModuleCallees(m, 2) {
		for _, c := range CallsIn(hf) {
			if cal := c.Common().StaticCallee(); cal != nil && !w.InModule(cal) && cal.Name() == fname && cal.Pkg != nil {
				libs[cal.Pkg.Pkg.Path()] = true
			}
		}
	}
	if len(libs) != 1 {
		return ""
	}
	for k := range libs {
		return k
	}
	return ""
}
