package main

// C19 — queries return the state committed at the requested height, read-only
// (DESIGN §3 C19, Q-1 … Q-4).

import (
	"fmt"
	"go/constant"
	"go/token"
	"go/types"
	"sort"
	"strings"

	"golang.org/x/tools/go/ssa"
)

func init() { register("C19", checkC19) }

// durable-write APIs of the dependencies (API classification table, DESIGN §1.3)
type apiRef struct{ pkg, typ, name string }

var durableWriteAPIs = []apiRef{
	{"github.com/tendermint/tm-db", "DB", "Set"}, {"github.com/tendermint/tm-db", "DB", "SetSync"},
	{"github.com/tendermint/tm-db", "DB", "Delete"}, {"github.com/tendermint/tm-db", "DB", "DeleteSync"},
	{"github.com/tendermint/tm-db", "Batch", "Write"}, {"github.com/tendermint/tm-db", "Batch", "WriteSync"},
	{"github.com/cosmos/iavl", "MutableTree", "Set"}, {"github.com/cosmos/iavl", "MutableTree", "Remove"},
	{"github.com/cosmos/iavl", "MutableTree", "SaveVersion"}, {"github.com/cosmos/iavl", "MutableTree", "DeleteVersion"},
	{"github.com/cosmos/iavl", "MutableTree", "DeleteVersions"}, {"github.com/cosmos/iavl", "MutableTree", "DeleteVersionsRange"},
	{"github.com/cosmos/iavl", "MutableTree", "LoadVersionForOverwriting"}, {"github.com/cosmos/iavl", "MutableTree", "Rollback"},
	{"github.com/ethereum/go-ethereum/core/state", "StateDB", "Commit"},
	{"github.com/ethereum/go-ethereum/trie", "Database", "Commit"},
	{"github.com/ethereum/go-ethereum/ethdb", "KeyValueWriter", "Put"}, {"github.com/ethereum/go-ethereum/ethdb", "KeyValueWriter", "Delete"},
	{"github.com/ethereum/go-ethereum/ethdb", "Batch", "Write"},
	{"github.com/tendermint/tendermint/libs/tempfile", "", "WriteFileAtomic"},
	{"os", "", "WriteFile"},
}

func (w *World) durableWrite(c *ssa.CallCommon) (string, bool) {
	obj := calleeObj(c)
	if obj == nil || obj.Pkg() == nil {
		return "", false
	}
	for _, a := range durableWriteAPIs {
		if obj.Name() != a.name || obj.Pkg().Path() != a.pkg {
			continue
		}
		sig := obj.Type().(*types.Signature)
		if a.typ == "" {
			if sig.Recv() == nil {
				return a.pkg[strings.LastIndex(a.pkg, "/")+1:] + "." + a.name, true
			}
			continue
		}
		if sig.Recv() == nil {
			continue
		}
		t := deref(sig.Recv().Type())
		if n, ok := t.(*types.Named); ok && n.Obj().Name() == a.typ {
			return a.typ + "." + a.name, true
		}
		// methods reached through an unnamed / embedding interface
		if _, isNamed := t.(*types.Named); !isNamed {
			if _, isI := t.Underlying().(*types.Interface); isI {
				return a.typ + "." + a.name, true
			}
		}
	}
	return "", false
}

// queryReach: reachability from Query where the scratch StateDBWrapper's account
// handler resolves to ImmuAcctCtrler only (justified by obligation Q-1e).
func (w *World) queryReach() *Reach {
	roots := w.entrySet("Query")
	filter := func(caller *ssa.Function, site ssa.CallInstruction, callee *ssa.Function) bool {
		if site == nil || !site.Common().IsInvoke() {
			return true
		}
		rv := site.Common().Value
		if strings.HasSuffix(typeStr(rv.Type()), "IAccountHandler") && w.Canon(rv) == "recv.acctHandler" && strings.Contains(w.FName(caller), "StateDBWrapper") {
			return strings.Contains(w.FName(callee), "ImmuAcctCtrler")
		}
		return true
	}
	r := w.ReachFrom(roots, nil, filter)
	// go-ethereum calls back into the wrapper while a message is applied
	hasApply := false
	for _, f := range r.ModuleFuncs() {
		for _, c := range CallsIn(f) {
			if w.isApplyMessage(c.Common()) {
				hasApply = true
			}
		}
	}
	if hasApply {
		r = w.ReachFrom(append(roots, w.evmCallbacks()...), nil, filter)
	}
	return r
}

func checkC19(w *World, r *Report) {
	r.Explanation = "Structural clause of C19: (Q-1) from Query (call graph, including go-ethereum's callbacks into the scratch StateDBWrapper) no overlay method other than tree reads is called on a live ledger, no durable-write API of tm-db/iavl/go-ethereum is reachable, no in-memory controller state is written (only the receiver of the scratch wrapper), and the scratch wrapper is built from ImmutableStateAt with the immutable account handler; (Q-2) every ledger read in a query handler is a tree read (Read / IterateReadAllItems) on the value returned by ImmutableLedgerAt(h) with h data-dependent on the request height, and vm_call's state comes from ImmutableStateAt(h) likewise; (Q-3) RigoApp.Query maps height 0 to the last committed height and its dispatch lists exactly the paths the controllers handle; (Q-4) no version of any tree is ever deleted or overwritten anywhere in the module. (Q-5) every historical read is served from a tree object of its own (a fresh iavl tree on the ledger's database, loaded at exactly the requested version, a load error is returned) under a fresh empty overlay — an iavl tree object remembers what was the latest version when it was opened, so it must not be shared between requests (C18 L-3). (Q-6) no function reachable from Query reads a controller field that block execution writes (candidate lists, validator sets, counters, the executing block context …): answers come from the immutable ledgers at the requested height, not from the in-memory state of the block that happens to be executing; the one listed exception is the last committed block context that supplies the default height. (Q-7) what a block committed is what the controllers made of the store's answers: a sentinel error that callers recognise by identity is handed back as itself (C18 L-5). (Q-9) building the historical tree of a query and committing a version on the same database exclude each other through the finality ledger's own mutex (C18 L-7). (Q-8) the stake controller's `stakes` query collects its answer by one scan over all delegatee records of the requested height and by nothing else. Q-6 also decides the ground of its exceptions: the fields queries read to resolve 'latest' (RigoApp.lastBlockCtx, EVMCtrler.lastBlockHeight, GovCtrler.GovParams) have a closed set of writers — the owner's Commit, after its ledger commits, and the start-up functions."
	r.NotCovered = "the returned bytes; races with a running block (Query takes no application mutex); `stakes/voting_power` answers with the current governance limits (not in the property's list); tendermint's rpc core used by vm_call for the block time."

	reach := w.queryReach()
	scope := reach.ModuleFuncs()
	r.Extra["scope_functions"] = len(scope)
	if len(scope) < 60 {
		r.Undecided("Q-0", "scope", fmt.Sprintf("only %d functions reachable from Query (floor 60)", len(scope)))
	}
	q1(w, r, reach, scope)
	q2(w, r, reach, scope)
	q3(w, r)
	q4(w, r)
	q6(w, r, reach, scope)
	r.Floor("Q-6", 1, "no in-memory consensus state on the query path")
	// Q-5: a historical read gets a tree object of its own, loaded at exactly the
	// requested version, under a fresh overlay (C18 L-3)
	{
		tmp := NewReport(r.Prop, r.Tier)
		l3(w, tmp)
		n := 0
		for _, o := range tmp.Obs {
			if o.Rule == "L-3" && strings.Contains(o.Key, "ImmutableLedgerAt") {
				o.Rule = "Q-5"
				o.Key = "Q-5:" + strings.TrimPrefix(o.Key, "L-3:")
				r.Obs = append(r.Obs, o)
				n++
			}
		}
		if n < 4 {
			r.Undecided("Q-5", "ImmutableLedgerAt", "the historical-read constructor could not be analysed")
		}
	}
	// Q-7: what a query returns for a height is what the block committed; a store
	// answer the controllers misread (a wrapped not-found sentinel) changes that (C18 L-5)
	if r.importObs(w, func(t *Report) { l5(w, t) }, "L-5", "Q-7") == 0 {
		r.Undecided("Q-7", "sentinel-identity", "no sentinel comparison analysed")
	}
	// Q-8: the list queries of the stake controller answer from the whole committed
	// set: stakes are stored in the record of the delegatee they point to but are
	// asked for by owner, so "the stakes of X at height h" needs every delegatee
	// record of h; a shortcut through one record leaves committed stakes out
	if q := w.Method(pkgStake, "StakeCtrler", "Query"); q != nil {
		bad, nOK := w.fullScanOnEveryAnswer(q, "stakes", func(mc *ssa.MakeClosure, cl *ssa.Function) (ssa.Value, bool) {
			// the callback collects (by append) into one list of the handler
			var acc ssa.Value
			n := 0
			for _, b := range cl.Blocks {
				for _, in := range b.Instrs {
					st, isS := in.(*ssa.Store)
					if !isS {
						continue
					}
					fv, isFV := st.Addr.(*ssa.FreeVar)
					if !isFV {
						continue
					}
					if !strings.HasPrefix(w.Canon(st.Val), "append("+w.Canon(fv)+", ") {
						return nil, false
					}
					n++
					for i, f := range cl.FreeVars {
						if f == fv && i < len(mc.Bindings) {
							if acc != nil && acc != mc.Bindings[i] {
								return nil, false
							}
							acc = mc.Bindings[i]
						}
					}
				}
			}
			return acc, n > 0 && acc != nil
		})
		r.Check(bad == "" && nOK > 0, "Q-8", "stake.Query:stakes:whole-set", "every successful answer to `stakes` is collected by one scan over all delegatee records of the requested height, and by nothing else", "the `stakes` query does not answer from all delegatee records of the requested height (stakes committed at that height can be missing from the answer): "+bad, fnSite(w, q))
	} else {
		r.Undecided("Q-8", "stake.Query", "StakeCtrler.Query not found")
	}
	// Q-9: a query's snapshot is built while no version is being saved on the same
	// database (C18 L-7): queries arrive on their own connection, concurrently with Commit
	if r.importObs(w, func(t *Report) { l7(w, t) }, "L-7", "Q-9") < 2 {
		r.Undecided("Q-9", "exclusion", "the snapshot/commit exclusion rules (C18 L-7) matched fewer than 2 constructs")
	}
	r.Floor("Q-1", 12, "ledger calls / scratch-wrapper writes on the query path")
	r.Floor("Q-2", 12, "immutable-ledger reads in the query handlers")
	r.Floor("Q-3", 4, "height default and dispatch agreement")
	r.Floor("Q-4", 1, "history never deleted")
}

func q1(w *World, r *Report, reach *Reach, scope []*ssa.Function) {
	nLedger := 0
	for _, fn := range scope {
		name := w.FName(fn)
		for _, c := range CallsIn(fn) {
			if api, ok := w.durableWrite(c.Common()); ok {
				r.Violate("Q-1", name+":durable-write:"+api, "a durable write is reachable from Query", map[string]interface{}{"path": reach.Path(fn)}, site(w, c))
			}
			if inLedgerPkg(w, fn) {
				continue
			}
			for _, a := range w.ledgerArms(c) {
				kind, desc := w.ledgerKind(a.Recv)
				key := fmt.Sprintf("%s:%s.%s", name, desc, a.Method)
				nLedger++
				switch {
				case kind == "scratch":
					r.OK("Q-1", key, "method of a scratch (immutable-at-height) ledger", site(w, c))
				case kind == "live" && treeRead[a.Method]:
					r.OK("Q-1", key, "tree read / immutable view of a live ledger", site(w, c))
				case kind == "live":
					r.Violate("Q-1", key, "a query calls overlay method "+a.Method+" of a live ledger (it would read uncommitted state or change what is committed)", map[string]interface{}{"path": reach.Path(fn)}, site(w, c))
				default:
					r.Undecided("Q-1", key, "cannot classify this ledger value as live or scratch", site(w, c))
				}
			}
		}
		for _, e := range w.csEffects(fn) {
			if baseFresh(e.Base) {
				continue
			}
			key := fmt.Sprintf("%s:%s:%s.%s", name, e.Kind, e.Owner.Obj().Name(), e.Field)
			if e.Owner.Obj().Name() == "StateDBWrapper" && w.Canon(e.Base) == "recv" {
				r.OK("Q-1", key, "write to the receiver of a StateDBWrapper method: on the query path the wrapper is the scratch one (Q-1e)", site(w, e.In))
			} else {
				r.Violate("Q-1", key, "a query writes in-memory controller state", map[string]interface{}{"path": reach.Path(fn)}, site(w, e.In))
			}
		}
		// the live wrapper must not be touched
		for _, b := range fn.Blocks {
			for _, in := range b.Instrs {
				if fa, ok := in.(*ssa.FieldAddr); ok {
					n, f := fieldOf(fa.X.Type(), fa.Field)
					if n != nil && f != nil && n.Obj().Name() == "EVMCtrler" && (f.Name() == "stateDBWrapper" || f.Name() == "vmevm" || f.Name() == "blockGasPool") {
						r.Violate("Q-1", name+":EVMCtrler."+f.Name(), "a query touches the live EVM state", map[string]interface{}{"path": reach.Path(fn)}, site(w, in))
					}
				}
			}
		}
	}
	// Q-1e: construction of the scratch wrapper
	is := needFn(r, "Q-1", w, fref{"ctrlers/vm/evm", "EVMCtrler", "ImmutableStateAt"})
	if is != nil {
		var hStore, sStore bool
		// the wrapper may be built by a constructor helper from values ImmutableStateAt
		// (or a loading helper) hands it: the values are followed to where they come from
		for _, g := range w.withModuleCallees(is, 2) {
			for _, fs := range w.fieldStores(g) {
				if !baseFresh(fs.Addr) || !namedIs(fs.Owner, absPkg("ctrlers/vm/evm"), "StateDBWrapper") {
					continue
				}
				if g != is && len(w.nodeCallers(g)) != 1 {
					continue // a shared constructor: decided where it is the only one
				}
				for _, c := range w.mayCanonsBelow(is, fs.Val, 4) {
					switch fs.Field.Name() {
					case "acctHandler":
						hStore = hStore || c == "recv.acctHandler.ImmutableAcctCtrlerAt(p0)#0"
					case "StateDB":
						sStore = sStore || strings.HasPrefix(c, "state.New(") && strings.Contains(c, "recv.metadb.Get(evm.blockKey(p0))#0")
					}
				}
			}
		}
		r.Check(hStore, "Q-1", "ImmutableStateAt:immutable-account-handler", "the scratch wrapper's account handler is ImmutableAcctCtrlerAt(height)", "the wrapper returned by ImmutableStateAt does not use the immutable account handler of that height (a read-only call would write the live account ledger)", fnSite(w, is))
		r.Check(sStore, "Q-1", "ImmutableStateAt:state-at-height", "the scratch wrapper's EVM state is a fresh state.New at the root recorded for that height", "the wrapper returned by ImmutableStateAt is not a fresh EVM state at the root stored for the requested height", fnSite(w, is))
	}
	cv := needFn(r, "Q-1", w, fref{"ctrlers/vm/evm", "EVMCtrler", "callVM"})
	if cv != nil {
		ims := w.callsTo(cv, fref{"ctrlers/vm/evm", "EVMCtrler", "ImmutableStateAt"})
		ok := len(ims) == 1
		var st ssa.Value
		if ok {
			st = extractOf(callValue(ims[0]), 0)
		}
		// every StateDB handed to the EVM / prepared is that state
		good := ok && st != nil
		var sites []string
		for _, c := range CallsIn(cv) {
			nm := callName(c.Common())
			var arg ssa.Value
			switch nm {
			case "NewEVM":
				if len(c.Common().Args) >= 3 {
					arg = c.Common().Args[2]
				}
			case "Prepare":
				arg, _ = callRecvArgs(c.Common())
			default:
				continue
			}
			sites = append(sites, site(w, c))
			if !w.loadsOnly(arg, st) {
				good = false
			}
		}
		r.Check(good && len(sites) >= 2, "Q-1", "callVM:uses-immutable-state", "the read-only call runs on the state returned by ImmutableStateAt", "callVM does not run the EVM on the state returned by ImmutableStateAt", sites...)
	}
	if nLedger == 0 {
		r.Undecided("Q-1", "ledger-calls", "no ledger call found on the query path")
	}
}

// loadsOnly: v is `want` or a load of a local whose only non-nil stores (in its
// own function) are `want`.
func (w *World) loadsOnly(v ssa.Value, want ssa.Value) bool {
	if v == nil || want == nil {
		return false
	}
	v = stripConv(v)
	if v == want {
		return true
	}
	u, ok := v.(*ssa.UnOp)
	if !ok || u.Op != token.MUL {
		return false
	}
	a, ok := u.X.(*ssa.Alloc)
	if !ok || a.Referrers() == nil {
		return false
	}
	n := 0
	for _, ref := range *a.Referrers() {
		if st, ok := ref.(*ssa.Store); ok && st.Addr == a {
			if c, isC := st.Val.(*ssa.Const); isC && c.IsNil() {
				continue
			}
			if st.Val != want {
				return false
			}
			n++
		}
	}
	return n > 0
}

// heightDerived: is v data-dependent on the request height only (the request's
// Height field, a parameter that receives such a value at every call site on
// the query path, or the last committed height used for height <= 0)?
func (w *World) heightDerived(v ssa.Value, reach *Reach, depth int) bool {
	if depth > 8 {
		return false
	}
	v = stripConv(v)
	c := w.Canon(v)
	if strings.HasSuffix(c, ".Height") && (strings.HasPrefix(c, "p") || strings.HasPrefix(c, "^p")) {
		return true
	}
	switch y := v.(type) {
	case *ssa.Phi:
		okAny := false
		for _, e := range y.Edges {
			if w.isDefaultHeight(e, reach, 0) {
				continue // default for height <= 0
			}
			if !w.heightDerived(e, reach, depth+1) {
				return false
			}
			okAny = true
		}
		return okAny
	case *ssa.Parameter:
		fn := y.Parent()
		idx := -1
		for i, p := range fn.Params {
			if p == y {
				idx = i
			}
		}
		n := 0
		for _, cs := range w.Callers(fn) {
			if cs.Site == nil || !reach.Set[cs.Caller] {
				continue
			}
			ai := idx
			if cs.Site.Common().IsInvoke() {
				ai = idx - 1
			}
			if ai < 0 || ai >= len(cs.Site.Common().Args) {
				return false
			}
			if !w.heightDerived(cs.Site.Common().Args[ai], reach, depth+1) {
				return false
			}
			n++
		}
		return n > 0
	case *ssa.UnOp:
		if y.Op == token.MUL {
			if a, ok := y.X.(*ssa.Alloc); ok && a.Referrers() != nil {
				// address-taken local (e.g. &height handed to the rpc core): all stores must qualify
				n := 0
				for _, ref := range *a.Referrers() {
					if st, ok := ref.(*ssa.Store); ok && st.Addr == a {
						if w.isDefaultHeight(st.Val, reach, 0) {
							continue
						}
						if !w.heightDerived(st.Val, reach, depth+1) {
							return false
						}
						n++
					}
				}
				return n > 0
			}
			// a field of a local parameter object (its address may be handed to the rpc
			// core as well): every store to that field of that variable must qualify
			if fa, ok := y.X.(*ssa.FieldAddr); ok {
				if a, isA := fa.X.(*ssa.Alloc); isA && a.Referrers() != nil {
					n := 0
					for _, ref := range *a.Referrers() {
						switch z := ref.(type) {
						case *ssa.FieldAddr:
							if z.Field != fa.Field || z.Referrers() == nil {
								continue
							}
							for _, r2 := range *z.Referrers() {
								if st, isSt := r2.(*ssa.Store); isSt && st.Addr == ssa.Value(z) {
									if w.isDefaultHeight(st.Val, reach, 0) {
										continue
									}
									if !w.heightDerived(st.Val, reach, depth+1) {
										return false
									}
									n++
								}
							}
						case *ssa.Store:
							if z.Addr == ssa.Value(a) {
								// assigned as a whole from a helper's result: that field of the result
								var call *ssa.Call
								switch v := z.Val.(type) {
								case *ssa.Call:
									call = v
								case *ssa.Extract:
									call, _ = v.Tuple.(*ssa.Call)
								}
								if call == nil || depth >= 7 || !w.heightFieldOfResult(call, fa.Field, deref(a.Type()), reach, depth+1) {
									return false
								}
								n++
							}
						}
					}
					return n > 0
				}
			}
		}
	case *ssa.Field:
		// a field of the parameter object a helper filled in and returned
		var call *ssa.Call
		switch z := y.X.(type) {
		case *ssa.Call:
			call = z
		case *ssa.Extract:
			call, _ = z.Tuple.(*ssa.Call)
		}
		if call != nil && depth < 7 {
			return w.heightFieldOfResult(call, y.Field, fieldHost(y), reach, depth+1)
		}
	}
	return false
}

// isDefaultHeight: v is the last committed height the controller keeps (the default
// for a request without height), possibly handed down as a parameter by every caller.
func (w *World) isDefaultHeight(v ssa.Value, reach *Reach, depth int) bool {
	v = stripConv(v)
	if w.Canon(v) == "recv.lastBlockHeight" {
		return true
	}
	pr, ok := v.(*ssa.Parameter)
	if !ok || depth > 3 {
		return false
	}
	fn := pr.Parent()
	idx := -1
	for i, p := range fn.Params {
		if p == pr {
			idx = i
		}
	}
	n := 0
	for _, cs := range w.Callers(fn) {
		if cs.Site == nil || !reach.Set[cs.Caller] {
			continue
		}
		ai := idx
		if cs.Site.Common().IsInvoke() {
			ai = idx - 1
		}
		if ai < 0 || ai >= len(cs.Site.Common().Args) || !w.isDefaultHeight(cs.Site.Common().Args[ai], reach, depth+1) {
			return false
		}
		n++
	}
	return n > 0
}

// heightFieldOfResult: field f of the struct (of type host) that the callee of call
// fills in and returns is derived from the request height.
func (w *World) heightFieldOfResult(call *ssa.Call, f int, host types.Type, reach *Reach, depth int) bool {
	fn := call.Common().StaticCallee()
	if fn == nil || !w.InModule(fn) || fn.Blocks == nil {
		return false
	}
	n := 0
	for _, b := range fn.Blocks {
		for _, in := range b.Instrs {
			fa, ok := in.(*ssa.FieldAddr)
			if !ok || fa.Field != f || !types.Identical(deref(fa.X.Type()), host) {
				continue
			}
			if _, isA := fa.X.(*ssa.Alloc); !isA || fa.Referrers() == nil {
				continue
			}
			for _, r2 := range *fa.Referrers() {
				if st, isSt := r2.(*ssa.Store); isSt && st.Addr == ssa.Value(fa) {
					if w.isDefaultHeight(st.Val, reach, 0) {
						continue
					}
					if !w.heightDerived(st.Val, reach, depth+1) {
						return false
					}
					n++
				}
			}
		}
	}
	return n > 0
}

// fieldHost: the struct type a Field instruction selects from.
func fieldHost(f *ssa.Field) types.Type {
	t := f.X.Type()
	if tup, ok := t.(*types.Tuple); ok && tup.Len() > 0 {
		return tup.At(0).Type()
	}
	return t
}

func q2(w *World, r *Report, reach *Reach, scope []*ssa.Function) {
	for _, fn := range scope {
		if inLedgerPkg(w, fn) {
			continue
		}
		name := w.FName(fn)
		for _, c := range CallsIn(fn) {
			nm := callName(c.Common())
			switch nm {
			case "ImmutableLedgerAt", "ImmutableStateAt", "ImmutableAcctCtrlerAt":
				_, args := callRecvArgs(c.Common())
				if len(args) == 0 {
					continue
				}
				key := fmt.Sprintf("%s:%s(%s)", name, nm, w.Canon(args[0]))
				r.Check(w.heightDerived(args[0], reach, 0), "Q-2", key, "the immutable view is opened at a height derived from the request height", "the immutable view is opened at a height that does not come from the request: "+w.Canon(args[0]), site(w, c))
			case "QueryCode":
			}
			for _, a := range w.ledgerArms(c) {
				if !treeRead[a.Method] && !mempoolOverlay[a.Method] && !consensusOverlay[a.Method] {
					continue
				}
				if a.Method == "ImmutableLedgerAt" || a.Method == "Version" {
					continue
				}
				kind, desc := w.ledgerKind(a.Recv)
				if kind == "live" && treeRead[a.Method] {
					// a read of the live ledger answers with the latest committed state, whatever height was asked for
					r.Violate("Q-2", fmt.Sprintf("%s:%s.%s:live-read", name, desc, a.Method), "a query reads the live ledger (the state of the latest block) instead of the view opened at the requested height", map[string]interface{}{"path": reach.Path(fn)}, site(w, c))
					continue
				}
				if kind != "scratch" {
					continue // overlay methods of live ledgers are decided by Q-1
				}
				if strings.Contains(name, "ImmuAcctCtrler") {
					// the EVM's scratch account handler works on its immutable ledger's own overlay
					continue
				}
				key := fmt.Sprintf("%s:%s.%s", name, desc, a.Method)
				r.Check(treeRead[a.Method], "Q-2", key, "committed items are read straight from the tree of the immutable ledger", "the query reads through an overlay of the scratch ledger instead of the committed tree", site(w, c))
			}
		}
	}
}

func q3(w *World, r *Report) {
	fn := needFn(r, "Q-3", w, fref{"node", "RigoApp", "Query"})
	if fn == nil {
		return
	}
	ok := false
	for _, fs := range w.fieldStores(fn) {
		if fs.Field.Name() == "Height" && w.Canon(fs.Addr) == "p0.Height" && w.Canon(fs.Val) == "recv.lastBlockCtx.Height()" {
			if w.condHolds(fs.In.Block(), 1, func(c ssa.Value) bool { return w.Canon(c) == "(p0.Height == 0)" }) {
				ok = true
			}
		}
	}
	r.Check(ok, "Q-3", "RigoApp.Query:height-0-is-last", "height 0 is replaced by the last committed height", "height 0 is not mapped to the last committed block height", fnSite(w, fn))
	// dispatch agreement
	pathsOf := func(f *ssa.Function, reqCanon string) map[string]bool {
		out := map[string]bool{}
		seen := map[*ssa.Function]bool{}
		var scan func(g *ssa.Function, d int)
		scan = func(g *ssa.Function, d int) {
			if g == nil || g.Blocks == nil || seen[g] || d > 2 {
				return
			}
			seen[g] = true
			for _, b := range g.Blocks {
				for _, in := range b.Instrs {
					if c, isCall := in.(*ssa.Call); isCall && d < 2 {
						if cal := c.Common().StaticCallee(); cal != nil && w.InModule(cal) && w.FuncPkgPath(cal) == w.FuncPkgPath(f) {
							scan(cal, d+1)
						}
					}
					// a dispatch table keyed by the path: its keys
					if lk, isL := in.(*ssa.Lookup); isL {
						if oc := w.Canon(lk.Index); oc == reqCanon+".Path" || (d > 0 && strings.HasSuffix(oc, ".Path")) {
							if lm := w.literalMap(stripConv(lk.X)); lm != nil {
								for _, ent := range lm.Entries {
									out[keyString(ent.Key)] = true
								}
							}
						}
						continue
					}
					bo, ok := in.(*ssa.BinOp)
					if !ok || (bo.Op != token.EQL && bo.Op != token.NEQ) {
						continue
					}
					var cst *ssa.Const
					var other ssa.Value
					if c, ok := bo.Y.(*ssa.Const); ok {
						cst, other = c, bo.X
					} else if c, ok := bo.X.(*ssa.Const); ok {
						cst, other = c, bo.Y
					}
					if cst == nil {
						// compared with an element of a local literal list: every string in it
						for _, pair := range [][2]ssa.Value{{bo.X, bo.Y}, {bo.Y, bo.X}} {
							oc := w.Canon(pair[0])
							if !(oc == reqCanon+".Path" || (d > 0 && strings.HasSuffix(oc, ".Path"))) {
								continue
							}
							if ld, isL := stripConv(pair[1]).(*ssa.UnOp); isL && ld.Op == token.MUL {
								if ia, isI := ld.X.(*ssa.IndexAddr); isI {
									if base, isA := localArrayBase(ia.X).(*ssa.Alloc); isA {
										if elems, ok := varargElems(base); ok {
											for _, e := range elems {
												if k, isK := stripConv(e).(*ssa.Const); isK && k.Value != nil && k.Value.Kind() == constant.String {
													out[constant.StringVal(k.Value)] = true
												}
											}
										}
									}
								}
							}
						}
						continue
					}
					if cst.Value == nil || cst.Value.Kind() != constant.String {
						continue
					}
					if oc := w.Canon(other); oc == reqCanon+".Path" || (d > 0 && strings.HasSuffix(oc, ".Path")) {
						out[constant.StringVal(cst.Value)] = true
					}
				}
			}
		}
		scan(f, 0)
		return out
	}
	// app: which paths go to which controller — RigoApp.Query is evaluated once per
	// path string (helpers expanded), recording which controller's Query is called
	appRoutes := map[string]map[string]bool{}
	passOK := map[string]bool{}
	{
		all := pathsOf(fn, "p0")
		all["<other>"] = true
		ev := func(in ssa.Instruction) string {
			c, ok := in.(ssa.CallInstruction)
			if !ok {
				return ""
			}
			rcv, args := callRecvArgs(c.Common())
			if c.Common().IsInvoke() {
				rcv = c.Common().Value
			}
			if callName(c.Common()) != "Query" {
				// a handler value chosen by the switch and called afterwards
				f, brcv := w.CalleeOnPath(c)
				if f == nil || f.Name() != "Query" || brcv == nil || c.Common().StaticCallee() != nil {
					return ""
				}
				rcv, args = brcv, c.Common().Args
			}
			if rcv == nil || !strings.HasPrefix(w.Canon(rcv), "recv.") {
				return ""
			}
			tgt := w.Canon(rcv)
			if len(args) == 1 && w.Canon(args[0]) == "p0" {
				if _, seen := passOK[tgt]; !seen {
					passOK[tgt] = true
				}
			} else {
				passOK[tgt] = false
			}
			return "Q:" + tgt
		}
		for ps := range all {
			ps := ps
			eval := func(c ssa.Value) (bool, bool) {
				bo, ok := c.(*ssa.BinOp)
				if !ok || (bo.Op != token.EQL && bo.Op != token.NEQ) {
					return false, false
				}
				var cst *ssa.Const
				var other ssa.Value
				if k, ok := bo.Y.(*ssa.Const); ok {
					cst, other = k, bo.X
				} else if k, ok := bo.X.(*ssa.Const); ok {
					cst, other = k, bo.Y
				} else if w.cur != nil && w.cur.st != nil {
					// an element of a literal list of paths walked by a loop: the
					// path being enumerated says which element it is
					if k, ok := stripConv(w.resolveValue(bo.Y, w.cur.st, w.cur.eval, 3)).(*ssa.Const); ok && w.Canon(bo.X) == "p0.Path" {
						cst, other = k, bo.X
					} else if k, ok := stripConv(w.resolveValue(bo.X, w.cur.st, w.cur.eval, 3)).(*ssa.Const); ok && w.Canon(bo.Y) == "p0.Path" {
						cst, other = k, bo.Y
					}
				}
				if cst == nil || cst.Value == nil || cst.Value.Kind() != constant.String || w.Canon(other) != "p0.Path" {
					return false, false
				}
				return (constant.StringVal(cst.Value) == ps) == (bo.Op == token.EQL), true
			}
			w.psEvents = true
			paths, _ := w.enumPaths(fn, eval, ev, 2000)
			w.psEvents = false
			for _, p := range paths {
				for _, e := range p.Events {
					if strings.HasPrefix(e, "Q:") {
						t := strings.TrimPrefix(e, "Q:")
						if appRoutes[t] == nil {
							appRoutes[t] = map[string]bool{}
						}
						appRoutes[t][ps] = true
					}
				}
			}
		}
	}
	var tgts []string
	for t := range passOK {
		tgts = append(tgts, t)
	}
	sort.Strings(tgts)
	for _, t := range tgts {
		r.Check(passOK[t], "Q-3", "RigoApp.Query:passes-request:"+t, "controller receives the request with the resolved height", "controller is queried with something other than the request whose height was resolved", fnSite(w, fn))
	}
	ctrls := []struct{ field, pkg, typ string }{{"recv.acctCtrler", "ctrlers/account", "AcctCtrler"}, {"recv.stakeCtrler", "ctrlers/stake", "StakeCtrler"}, {"recv.govCtrler", "ctrlers/gov", "GovCtrler"}, {"recv.vmCtrler", "ctrlers/vm/evm", "EVMCtrler"}}
	for _, ct := range ctrls {
		qf := w.Method(ct.pkg, ct.typ, "Query")
		if qf == nil {
			r.Undecided("Q-3", "dispatch:"+ct.typ, "controller Query not found")
			continue
		}
		handled := pathsOf(qf, "p0")
		routed := appRoutes[ct.field]
		if routed == nil {
			r.Violate("Q-3", "dispatch:"+ct.typ, "RigoApp.Query never routes to this controller", nil, fnSite(w, fn))
			continue
		}
		if len(handled) == 0 {
			// controller without its own switch (account, vm): it must receive exactly one path
			r.Check(len(routed) == 1, "Q-3", "dispatch:"+ct.typ, fmt.Sprintf("single path %v routed to a single-purpose handler", keysOf(routed)), fmt.Sprintf("several paths %v are routed to a handler that does not distinguish them", keysOf(routed)), fnSite(w, qf))
			continue
		}
		var diff []string
		for p := range routed {
			if !handled[p] {
				diff = append(diff, "routed-but-unhandled:"+p)
			}
		}
		for p := range handled {
			if !routed[p] {
				diff = append(diff, "handled-but-unrouted:"+p)
			}
		}
		sort.Strings(diff)
		r.Check(len(diff) == 0, "Q-3", "dispatch:"+ct.typ, fmt.Sprintf("paths %v are both routed and handled", keysOf(routed)), "dispatch tables disagree: "+strings.Join(diff, ", "), fnSite(w, qf))
	}
}

func keysOf(m map[string]bool) []string {
	var out []string
	for k := range m {
		out = append(out, k)
	}
	sort.Strings(out)
	return out
}

func q4(w *World, r *Report) {
	var bad []string
	n := 0
	for _, fn := range w.ModuleFuncs() {
		for _, c := range CallsIn(fn) {
			obj := calleeObj(c.Common())
			if obj == nil || obj.Pkg() == nil || obj.Pkg().Path() != "github.com/cosmos/iavl" {
				continue
			}
			n++
			switch obj.Name() {
			case "DeleteVersion", "DeleteVersions", "DeleteVersionsRange", "LoadVersionForOverwriting", "Rollback":
				bad = append(bad, w.FName(fn)+"@"+site(w, c))
			}
		}
	}
	r.Extra["q4_iavl_call_sites"] = n
	if n < 5 {
		r.Undecided("Q-4", "iavl-calls", fmt.Sprintf("only %d iavl call sites found in the module (positive control: floor 5)", n))
		return
	}
	if len(bad) == 0 {
		r.OK("Q-4", "history-never-deleted", fmt.Sprintf("none of the %d iavl call sites in the module deletes or overwrites a version", n), "ledger/simple_ledger.go", "ledger/finality_ledger.go")
	} else {
		r.Violate("Q-4", "history-never-deleted", "a committed version can be deleted or overwritten: answers for past heights would change", nil, bad...)
	}
}

// q6 — queries must not read in-memory controller state that block execution writes.
var q6Exceptions = map[string]string{
	"RigoApp.lastBlockCtx":      "height 0 is replaced by the last committed height (Q-3); the field is assigned only by Commit (after the commit point) and Info",
	"RigoApp.mtx":               "the application mutex",
	"EVMCtrler.lastBlockHeight": "vm_call replaces height <= 0 by the EVM store's last committed height; the field is advanced only inside Commit",
	"GovCtrler.GovParams":       "vm_call takes its execution environment (gas price, gas limits) from the active governance parameters; the state it reads is that of the requested height (ImmutableStateAt, E-5). The active parameters change only in Commit",
}

// q6CommitOnly: the excepted fields and the closed set of functions that assign them.
var q6CommitOnly = []struct {
	pkg, typ, field string
	allowed         []string
}{
	{"node", "RigoApp", "lastBlockCtx", []string{"node.(*RigoApp).Commit", "node.(*RigoApp).Info", "node.NewRigoApp"}},
	{"ctrlers/vm/evm", "EVMCtrler", "lastBlockHeight", []string{"evm.(*EVMCtrler).Commit", "evm.NewEVMCtrler"}},
	{"ctrlers/gov", "GovCtrler", "GovParams", []string{"gov.(*GovCtrler).Commit", "gov.(*GovCtrler).InitLedger", "gov.NewGovCtrler"}},
}

// controller objects whose fields are process-wide state (a StateDBWrapper is
// per block or per call: the one a query uses is built for that query, C17 E-5)
var q6Owners = map[string]bool{"RigoApp": true, "AcctCtrler": true, "StakeCtrler": true, "GovCtrler": true, "EVMCtrler": true, "StakeLimiter": true}

func q6(w *World, r *Report, reach *Reach, scope []*ssa.Function) {
	x := NewExecCtx(w)
	written := consensusWrittenFields(w, x)
	if len(written) < 5 {
		r.Undecided("Q-6", "consensus-state", fmt.Sprintf("only %d controller fields written by block execution were found (floor 5)", len(written)))
		return
	}
	type rd struct {
		fn   *ssa.Function
		in   ssa.Instruction
		what string
	}
	reads := map[string][]rd{}
	for _, fn := range scope {
		for _, b := range fn.Blocks {
			for _, in := range b.Instrs {
				fa, ok := in.(*ssa.FieldAddr)
				if !ok {
					continue
				}
				n, f := fieldOf(fa.X.Type(), fa.Field)
				if n == nil || f == nil {
					continue
				}
				k := n.Obj().Name() + "." + f.Name()
				if _, isW := written[k]; !isW || !q6Owners[n.Obj().Name()] {
					continue
				}
				// only loads count (a query must not write either, but that is Q-1)
				isLoad := false
				if fa.Referrers() != nil {
					for _, ref := range *fa.Referrers() {
						if u, isU := ref.(*ssa.UnOp); isU && u.Op == token.MUL {
							isLoad = true
						}
						if _, isC := ref.(ssa.CallInstruction); isC {
							isLoad = true
						}
					}
				}
				if isLoad {
					reads[k] = append(reads[k], rd{fn, in, w.Canon(fa)})
				}
			}
		}
	}
	var keys []string
	for k := range reads {
		keys = append(keys, k)
	}
	sort.Strings(keys)
	for _, k := range keys {
		rs := reads[k]
		var sites []string
		for _, x := range rs {
			sites = append(sites, site(w, x.in))
		}
		if why, ok := q6Exceptions[k]; ok {
			r.OK("Q-6", "reads:"+k, "excepted: "+why, sites...)
			continue
		}
		r.Violate("Q-6", "reads:"+k, fmt.Sprintf("a query path reads %s, which block execution writes (%s): the answer depends on the block that is executing instead of the state committed at the requested height", k, written[k][0]), map[string]interface{}{"path": reach.Path(rs[0].fn)}, sites...)
	}
	// the exceptions rest on "assigned only at the commit point and at start-up":
	// that is an obligation of its own (a query may arrive between any two calls
	// of the consensus connection, also between EndBlock and Commit)
	for _, e := range q6CommitOnly {
		allowed := map[string]string{}
		for _, a := range e.allowed {
			allowed[a] = "commit point / start-up"
		}
		w.checkWriters(r, "Q-6", e.pkg, e.typ, e.field, allowed)
		// inside Commit the assignment follows the ledgers' commit
		if cm := w.Method(e.pkg, e.typ, "Commit"); cm != nil {
			nSt := 0
			bad := ""
			for _, fs := range w.fieldStores(cm) {
				if fs.Field.Name() != e.field || !namedIs(fs.Owner, absPkg(e.pkg), e.typ) {
					continue
				}
				nSt++
				for _, c := range CallsIn(cm) {
					if callName(c.Common()) == "Commit" && instrReaches(fs.In, c) && !instrReaches(c, fs.In) {
						bad = "the assignment at " + w.InstrPos(fs.In) + " precedes " + w.canonCall(c.Common(), 0)
					}
				}
			}
			if nSt > 0 {
				r.Check(bad == "", "Q-6", e.typ+"."+e.field+":after-commit-point", "inside Commit the field is assigned after every ledger / controller commit of that function", "the field queries resolve 'latest' with is advanced before the state it names is committed: "+bad, fnSite(w, cm))
			}
		}
	}
	r.OK("Q-6", "scan", fmt.Sprintf("%d functions reachable from Query scanned against %d controller fields written by block execution", len(scope), len(written)))
}
